import FGVerif.Proofs.C13IdsA
import FGVerif.Proofs.C13Any
/-!
  C13 — node substitution for parents with ARBITRARY node ids (`inDomainIds`): pairwise distinct integers in any
  node order — offset ids (`parse(…, idx_offset=k)`), sparse ids (sub-graphs), shuffled, negative.  No assumption
  that the ids are `0..n-1`.

  What the code does there (and what is proved of the model `replaceNode`, `idx_offset = max id + 1`):
  the sub-pattern is inserted on ids above every parent id; `relabel_graph` renumbers by SORTED id, so a surviving
  parent node `u` becomes its rank among the surviving parent ids (`renIds g x u`), the sub-pattern's node `j`
  (its parse id at offset 0) becomes `n − 1 + j`; the node ORDER of the result is inherited (the parent's other
  nodes in the parent's node order, then the sub-pattern's nodes in its order).

  * `C13.replace_exact_ids`   `SpecIds g x sub anchors (replaceNode g x sub anchors)` on `inDomainIds`:
      graph kind; node list with attributes (`specNodesIds`); between two surviving parent nodes exactly the
      parent's bond labels; between two sub-pattern nodes exactly the sub-pattern's; between a parent node `u` and
      a sub-pattern node `j` exactly the re-attached bonds `crossLabels g x anchors u j` (k-th incident bond of the
      replaced node — in the order `incSpec`, which networkx reports after the composition step — to
      `anchor[min k (|anchor| − 1)]`), in both directions; no bond outside the node set.  Every pair of result ids
      is one of these three kinds (`SpecIds.cover`), so nothing else is created or lost.  All label lists are
      proved equal in key order and stated as multisets.
  * `C13.replace_ids_perm_ids`, `C13.replace_contiguousAny_ids`, `C13.replace_wf_ids`   the result is well-formed
      and its ids are exactly `0..n+m-2` (in the inherited order), so it is in `inDomainAny` again
  * `C13.replace_contiguous_ids`   parent ids strictly increasing in node order (offset/sparse ids) and the sub-pattern
      in parse order: the result's ids are `0, 1, …` in node order
  * `C13.compose_incident_order_ids`   the incident order after the composition step is `incSpec`
  * `C13.replace_empty_ids`    an empty sub-pattern deletes the node together with its bonds
  * `C13.specCheckIds_sound`   the executable checker the driver applies to implementation outputs implies `SpecIds`
      (no hypothesis); `C13.replace_specCheckIds` the model passes it
  * `C13.inDomainIds_of_inDomainAny`, `C13.renIds_eq_ren`, `C13.specNodesIds_eq`   on ids `0..n-1` the domain,
      the renumbering and the node list are those of `Spec`: `SpecIds` generalises it
  * `C13.map_rank_perm_upto`   `relabel_graph` always yields contiguous ids
-/
set_option linter.unusedSimpArgs false
namespace C13
open Graph

/-- the declarative specification of `replace_node` for arbitrary parent ids, stated with the old names -/
structure SpecIds (g : Graph) (x : Int) (sub : Graph) (anchors : List Nat) (out : Graph) : Prop where
  multi : out.multi = g.multi
  nodes : out.nodes = specNodesIds g x sub
  parent : ∀ u ∈ surv g x, ∀ v ∈ surv g x,
    (labelsBetween out (renIds g x u) (renIds g x v)).Perm (labelsBetween g u v)
  pattern : ∀ i ∈ sub.nodeIds, ∀ j ∈ sub.nodeIds,
    (labelsBetween out (i + ((g.nodes.length : Int) - 1)) (j + ((g.nodes.length : Int) - 1))).Perm (labelsBetween sub i j)
  cross : ∀ u ∈ surv g x, ∀ j ∈ sub.nodeIds,
    (labelsBetween out (renIds g x u) (j + ((g.nodes.length : Int) - 1))).Perm (crossLabels g x anchors u j) ∧
    (labelsBetween out (j + ((g.nodes.length : Int) - 1)) (renIds g x u)).Perm (crossLabels g x anchors u j)
  nothingElse : ∀ a b : Int, a ∉ out.nodeIds ∨ b ∉ out.nodeIds → labelsBetween out a b = []

/-- every id of the result is the new name of a surviving parent node or of a sub-pattern node: the three bond
    clauses of `SpecIds` speak about all pairs of result nodes -/
theorem SpecIds.cover {g : Graph} {x : Int} {sub : Graph} {anchors : List Nat} {out : Graph}
    (s : SpecIds g x sub anchors out) (a : Int) (ha : a ∈ out.nodeIds) :
    (∃ u ∈ surv g x, a = renIds g x u) ∨ (∃ j ∈ sub.nodeIds, a = j + ((g.nodes.length : Int) - 1)) := by
  unfold Graph.nodeIds at ha
  rw [s.nodes, specNodesIds, List.map_append, List.mem_append] at ha
  rcases ha with ha | ha
  · left
    obtain ⟨q, hq, rfl⟩ := List.mem_map.mp ha
    obtain ⟨p, hp, rfl⟩ := List.mem_map.mp hq
    refine ⟨p.1, ?_, rfl⟩
    have := List.mem_filter.mp hp
    exact List.mem_filter.mpr ⟨List.mem_map.mpr ⟨p, this.1, rfl⟩, this.2⟩
  · right
    obtain ⟨q, hq, rfl⟩ := List.mem_map.mp ha
    obtain ⟨p, hp, rfl⟩ := List.mem_map.mp hq
    exact ⟨p.1, List.mem_map.mpr ⟨p, hp, rfl⟩, rfl⟩

/-! ### ranks -/

theorem upto_getElem (N i : Nat) (hi : i < (E.upto N).length) : (E.upto N)[i] = (i : Int) := by
  simp [E.upto]

theorem upto_length (N : Nat) : (E.upto N).length = N := by unfold E.upto; simp

/-- in a strictly ascending list the ranks are `0, 1, …` -/
theorem map_rank_sorted (S : List Int) (hs : S.Pairwise (· < ·)) : S.map (rank S) = E.upto S.length := by
  apply List.ext_getElem
  · simp [upto_length]
  · intro i h1 h2
    rw [List.getElem_map, rank_sorted_getElem S hs i (by simpa using h1), upto_getElem]

/-- `relabel_graph` always yields contiguous ids: the ranks of distinct ids are a permutation of `0..|L|-1` -/
theorem map_rank_perm_upto (L : List Int) (hn : L.Nodup) : (L.map (rank L)).Perm (E.upto L.length) := by
  have hp := sortAsc_perm L
  have h1 : (L.map (rank L)).Perm ((sortAsc L).map (rank L)) := hp.symm.map _
  have h2 : (sortAsc L).map (rank L) = (sortAsc L).map (rank (sortAsc L)) := by
    apply List.map_congr_left; intro u _; exact (rank_perm hp u).symm
  rw [h2, map_rank_sorted _ (sortAsc_strict L hn), hp.length_eq] at h1
  exact h1

theorem rank_upto (N : Nat) (j : Int) (h0 : 0 ≤ j) (hj : j < N) : rank (E.upto N) j = j := by
  have hi : j.toNat < (E.upto N).length := by rw [upto_length]; omega
  have := rank_sorted_getElem (E.upto N) (E.upto_pairwise N) j.toNat hi
  rw [upto_getElem] at this
  have e : ((j.toNat : Nat) : Int) = j := by omega
  rw [e] at this; exact this

theorem rank_append (S H : List Int) (u : Int) : rank (S ++ H) u = rank S u + rank H u := by
  unfold rank; rw [List.filter_append, List.length_append]; omega

theorem rank_of_all_ge (H : List Int) (u : Int) (h : ∀ y ∈ H, u ≤ y) : rank H u = 0 := by
  unfold rank
  have : H.filter (fun y => decide (y < u)) = [] := by
    apply List.filter_eq_nil_iff.mpr
    intro y hy; have := h y hy; simp; omega
  rw [this]; rfl

theorem rank_of_all_lt (S : List Int) (u : Int) (h : ∀ y ∈ S, y < u) : rank S u = (S.length : Int) := by
  unfold rank
  have : S.filter (fun y => decide (y < u)) = S := by
    apply List.filter_eq_self.mpr
    intro y hy; have := h y hy; simp; omega
  rw [this]

theorem rank_map_add (L : List Int) (k j : Int) : rank (L.map (· + k)) (j + k) = rank L j := by
  unfold rank
  rw [List.filter_map, List.length_map]
  congr 2
  apply List.filter_congr
  intro y _
  simp only [Function.comp]
  by_cases h : y < j
  · have : y + k < j + k := by omega
    simp [h, this]
  · have : ¬ (y + k < j + k) := by omega
    simp [h, this]

theorem length_filter_ne_of_nodup : ∀ (l : List Int) (x : Int), l.Nodup → x ∈ l →
    (l.filter (· != x)).length + 1 = l.length := by
  intro l x
  induction l with
  | nil => intro _ h; simp at h
  | cons y ys ih =>
    intro hn hx
    rw [List.nodup_cons] at hn
    by_cases hy : y = x
    · subst hy
      have : (y :: ys).filter (· != y) = ys := by
        rw [List.filter_cons]
        simp only [bne_self_eq_false, Bool.false_eq_true, if_false]
        apply List.filter_eq_self.mpr
        intro z hz
        have : z ≠ y := fun e => hn.1 (e ▸ hz)
        simpa using this
      rw [this]; rfl
    · have hx' : x ∈ ys := by
        rcases List.mem_cons.mp hx with e | e
        · exact absurd e.symm hy
        · exact e
      have hb : (y != x) = true := by simpa using hy
      rw [List.filter_cons, if_pos hb, List.length_cons, List.length_cons, ih hn.2 hx']

/-! ### from the decidable domain -/

namespace E
variable {g : Graph} {x : Int} {sub : Graph} {anchors : List Nat}

theorem domI_of_inDomainIds (h : inDomainIds g x sub anchors = true) : DomI g x sub anchors (nextId g) := by
  unfold inDomainIds at h
  simp only [Bool.and_eq_true, Bool.not_eq_true', beq_iff_eq] at h
  obtain ⟨⟨⟨⟨⟨⟨h1, h3⟩, h4⟩, h5⟩, h6⟩, h7⟩, h8⟩ := h
  refine ⟨WF_of_wf h1, (hasNode_iff g x).mp h3, WF_of_wf h5, perm_of_contiguousAny h6, nextId_gt g, ?_, ?_, h8⟩
  · intro hm
    have := (hasEdge_iff g x x).mpr hm
    rw [this] at h4; cases h4
  · intro hm i
    unfold anchorsOk at h7
    simp only [Bool.or_eq_true, Bool.and_eq_true, Bool.not_eq_true', List.all_eq_true, decide_eq_true_eq,
      List.isEmpty_iff] at h7
    rcases h7 with h7 | h7
    · rw [h7] at hm; simp at hm
    · apply anchorAt_lt _ h7.2
      intro e; rw [e] at h7; simp at h7

variable {off : Int}

theorem DomI.surv_mem (_d : DomI g x sub anchors off) {u : Int} (hu : u ∈ surv g x) : u ∈ g.nodeIds ∧ u ≠ x := by
  have := List.mem_filter.mp hu
  exact ⟨this.1, by simpa using this.2⟩

theorem DomI.surv_length (d : DomI g x sub anchors off) : ((surv g x).length : Int) = (g.nodes.length : Int) - 1 := by
  have := length_filter_ne_of_nodup g.nodeIds x d.wg.nodup d.hx
  have hl : g.nodeIds.length = g.nodes.length := by simp [Graph.nodeIds]
  unfold surv; omega

/-- the graph before the renumbering -/
abbrev G3At (off : Int) (g : Graph) (x : Int) (sub : Graph) (anchors : List Nat) : Graph :=
  (G2At off g x sub anchors).removeNode x

theorem DomI.G3_ids (d : DomI g x sub anchors off) :
    (G3At off g x sub anchors).nodeIds = surv g x ++ sub.nodeIds.map (· + off) := d.G3_nodeIds

/-- a surviving parent id keeps its rank among the surviving parent ids -/
theorem DomI.rank_parent (d : DomI g x sub anchors off) {u : Int} (hu : u ∈ surv g x) :
    rank (G3At off g x sub anchors).nodeIds u = renIds g x u := by
  rw [d.G3_ids, rank_append, rank_of_all_ge (sub.nodeIds.map (· + off)) u]
  · unfold renIds; omega
  · intro y hy
    obtain ⟨j, hj, rfl⟩ := List.mem_map.mp hy
    have := (d.s_mem.mp hj).1
    have := d.lt u (d.surv_mem hu).1
    omega

/-- the sub-pattern's node `j` ranks `n − 1 + j` -/
theorem DomI.rank_pattern (d : DomI g x sub anchors off) {j : Int} (hj : j ∈ sub.nodeIds) :
    rank (G3At off g x sub anchors).nodeIds (j + off) = j + ((g.nodes.length : Int) - 1) := by
  rw [d.G3_ids, rank_append, rank_of_all_lt, rank_map_add, rank_perm d.cs,
    rank_upto _ j (d.s_mem.mp hj).1 (d.s_mem.mp hj).2, d.surv_length]
  · omega
  · intro y hy
    have := d.lt y (d.surv_mem hy).1
    have := (d.s_mem.mp hj).1
    omega

theorem DomI.mem_G3_parent (d : DomI g x sub anchors off) {u : Int} (hu : u ∈ surv g x) :
    u ∈ (G3At off g x sub anchors).nodeIds := by rw [d.G3_ids]; exact List.mem_append_left _ hu

theorem DomI.mem_G3_pattern (d : DomI g x sub anchors off) {j : Int} (hj : j ∈ sub.nodeIds) :
    j + off ∈ (G3At off g x sub anchors).nodeIds := by
  rw [d.G3_ids]; exact List.mem_append_right _ (List.mem_map.mpr ⟨j, hj, rfl⟩)

theorem DomI.wf3 (d : DomI g x sub anchors off) : wf (G3At off g x sub anchors) = true := wf_of_WF d.w3

/-- the node list of the result -/
theorem DomI.nodes (d : DomI g x sub anchors off) :
    (replaceNodeAt off g x sub anchors).nodes = specNodesIds g x sub := by
  rw [replaceNodeAt_eq, (relabel_exact _ 0 d.wf3).2.1, d.G3_nodes, List.map_append, specNodesIds]
  congr 1
  · apply List.map_congr_left
    intro p hp
    have hm : p.1 ∈ surv g x := by
      have := List.mem_filter.mp hp
      exact List.mem_filter.mpr ⟨List.mem_map.mpr ⟨p, this.1, rfl⟩, this.2⟩
    simp only [d.rank_parent hm, Int.add_zero]
  · rw [List.map_map]
    apply List.map_congr_left
    intro p hp
    have hm : p.1 ∈ sub.nodeIds := List.mem_map.mpr ⟨p, hp, rfl⟩
    simp only [Function.comp, d.rank_pattern hm, Int.add_zero]

/-- bonds of the result between the new names of two nodes of the graph before the renumbering -/
theorem DomI.out_labels (d : DomI g x sub anchors off) {a b : Int}
    (ha : a ∈ (G3At off g x sub anchors).nodeIds) (hb : b ∈ (G3At off g x sub anchors).nodeIds) :
    labelsBetween (replaceNodeAt off g x sub anchors)
        (rank (G3At off g x sub anchors).nodeIds a) (rank (G3At off g x sub anchors).nodeIds b)
      = labelsBetween (G3At off g x sub anchors) a b := by
  rw [replaceNodeAt_eq]
  have := (relabel_exact _ 0 d.wf3).2.2.1 a ha b hb
  simpa using this

theorem DomI.labels_parent (d : DomI g x sub anchors off) {u v : Int} (hu : u ∈ surv g x) (hv : v ∈ surv g x) :
    labelsBetween (replaceNodeAt off g x sub anchors) (renIds g x u) (renIds g x v) = labelsBetween g u v := by
  rw [← d.rank_parent hu, ← d.rank_parent hv, d.out_labels (d.mem_G3_parent hu) (d.mem_G3_parent hv),
    d.G3_labels u v (d.surv_mem hu).2 (d.surv_mem hv).2]
  have hu' := d.lt u (d.surv_mem hu).1
  have hv' := d.lt v (d.surv_mem hv).1
  rw [TTAt_below off g x sub anchors hu' hv']
  have : sub.edgeData (u - off) (v - off) = [] := d.s_nil (Or.inl (by omega))
  simp [labelsBetween, this]

theorem DomI.ne_x_of_pattern (d : DomI g x sub anchors off) {j : Int} (hj : j ∈ sub.nodeIds) : j + off ≠ x := by
  have := (d.s_mem.mp hj).1
  have := d.x_lt
  omega

theorem DomI.labels_pattern (d : DomI g x sub anchors off) {i j : Int} (hi : i ∈ sub.nodeIds) (hj : j ∈ sub.nodeIds) :
    labelsBetween (replaceNodeAt off g x sub anchors)
        (i + ((g.nodes.length : Int) - 1)) (j + ((g.nodes.length : Int) - 1)) = labelsBetween sub i j := by
  rw [← d.rank_pattern hi, ← d.rank_pattern hj, d.out_labels (d.mem_G3_pattern hi) (d.mem_G3_pattern hj),
    d.G3_labels _ _ (d.ne_x_of_pattern hi) (d.ne_x_of_pattern hj)]
  have h0i := (d.s_mem.mp hi).1
  have h0j := (d.s_mem.mp hj).1
  rw [d.TT_above (by omega) (by omega)]
  have h1 : g.edgeData (i + off) (j + off) = [] := d.g_nil (Or.inl (by omega))
  have e1 : i + off - off = i := by omega
  have e2 : j + off - off = j := by omega
  simp [labelsBetween, h1, e1, e2]

theorem DomI.sub_pos (d : DomI g x sub anchors off) {j : Int} (hj : j ∈ sub.nodeIds) : sub.nodes.length > 0 := by
  have := d.s_mem.mp hj; omega

theorem DomI.labels_cross (d : DomI g x sub anchors off) {u j : Int} (hu : u ∈ surv g x) (hj : j ∈ sub.nodeIds) :
    labelsBetween (replaceNodeAt off g x sub anchors) (renIds g x u) (j + ((g.nodes.length : Int) - 1))
      = crossLabels g x anchors u j := by
  rw [← d.rank_parent hu, ← d.rank_pattern hj, d.out_labels (d.mem_G3_parent hu) (d.mem_G3_pattern hj),
    d.G3_labels _ _ (d.surv_mem hu).2 (d.ne_x_of_pattern hj)]
  have hu' := d.lt u (d.surv_mem hu).1
  have h0j := (d.s_mem.mp hj).1
  rw [TTAt_cross off g x sub anchors (j + off) (d.sub_pos hj) hu', d.incident_order]
  have h1 : g.edgeData u (j + off) = [] := d.g_nil (Or.inr (by omega))
  have h2 : sub.edgeData (u - off) (j + off - off) = [] := d.s_nil (Or.inl (by omega))
  have e2 : j + off - off = j := by omega
  simp only [labelsBetween, h1, h2, List.map_nil, List.nil_append, crossLabels]
  rw [e2]

theorem DomI.labels_cross' (d : DomI g x sub anchors off) {u j : Int} (hu : u ∈ surv g x) (hj : j ∈ sub.nodeIds) :
    labelsBetween (replaceNodeAt off g x sub anchors) (j + ((g.nodes.length : Int) - 1)) (renIds g x u)
      = crossLabels g x anchors u j := by
  rw [← d.rank_parent hu, ← d.rank_pattern hj, d.out_labels (d.mem_G3_pattern hj) (d.mem_G3_parent hu),
    d.G3_labels _ _ (d.ne_x_of_pattern hj) (d.surv_mem hu).2]
  have hu' := d.lt u (d.surv_mem hu).1
  have h0j := (d.s_mem.mp hj).1
  rw [selL_swap, TTAt_cross off g x sub anchors (j + off) (d.sub_pos hj) hu', d.incident_order]
  have h1 : g.edgeData (j + off) u = [] := d.g_nil (Or.inl (by omega))
  have h2 : sub.edgeData (j + off - off) (u - off) = [] := d.s_nil (Or.inr (Or.inr (Or.inl (by omega))))
  have e2 : j + off - off = j := by omega
  simp only [labelsBetween, h1, h2, List.map_nil, List.nil_append, crossLabels]
  rw [e2]

theorem DomI.w4 (d : DomI g x sub anchors off) : WF (replaceNodeAt off g x sub anchors) := by
  rw [replaceNodeAt_eq]; exact WF_of_wf (relabel_exact _ 0 d.wf3).2.2.2

/-- the result's ids as a list: the ranks of the ids before the renumbering, in node order -/
theorem DomI.out_ids (d : DomI g x sub anchors off) :
    (replaceNodeAt off g x sub anchors).nodeIds
      = (G3At off g x sub anchors).nodeIds.map (rank (G3At off g x sub anchors).nodeIds) := by
  unfold Graph.nodeIds
  rw [replaceNodeAt_eq, (relabel_exact _ 0 d.wf3).2.1, List.map_map, List.map_map]
  apply List.map_congr_left
  intro p _
  simp [Graph.nodeIds]

theorem DomI.G3_length (d : DomI g x sub anchors off) :
    (G3At off g x sub anchors).nodeIds.length = g.nodes.length - 1 + sub.nodes.length := by
  rw [d.G3_ids, List.length_append, List.length_map]
  have := d.surv_length
  have hl : sub.nodeIds.length = sub.nodes.length := by simp [Graph.nodeIds]
  omega

theorem DomI.result_ids (d : DomI g x sub anchors off) :
    (replaceNodeAt off g x sub anchors).nodeIds.Perm (upto (g.nodes.length + sub.nodes.length - 1)) := by
  rw [d.out_ids]
  have h := map_rank_perm_upto _ d.w3.nodup
  rw [d.G3_length] at h
  have hn : 0 < g.nodes.length := by
    have := d.surv_length
    omega
  have e : g.nodes.length - 1 + sub.nodes.length = g.nodes.length + sub.nodes.length - 1 := by omega
  rw [e] at h; exact h

theorem DomI.spec (d : DomI g x sub anchors off) : SpecIds g x sub anchors (replaceNodeAt off g x sub anchors) where
  multi := replaceNodeAt_multi off g x sub anchors
  nodes := d.nodes
  parent := fun u hu v hv => by rw [d.labels_parent hu hv]
  pattern := fun i hi j hj => by rw [d.labels_pattern hi hj]
  cross := fun u hu j hj => ⟨by rw [d.labels_cross hu hj], by rw [d.labels_cross' hu hj]⟩
  nothingElse := fun a b h => by
    unfold labelsBetween; rw [edgeData_nil_of_not_node d.w4 h]; rfl

end E

/-! ### property theorems for arbitrary parent ids -/

/-- **`replace_node` (with `idx_offset = max id + 1`) meets its specification for every well-formed parent,
    whatever its node ids** -/
theorem replace_exact_ids (g : Graph) (x : Int) (sub : Graph) (anchors : List Nat)
    (hd : inDomainIds g x sub anchors = true) : SpecIds g x sub anchors (replaceNode g x sub anchors) :=
  (E.domI_of_inDomainIds hd).spec

/-- the label lists, in key order -/
theorem replace_labels_ids (g : Graph) (x : Int) (sub : Graph) (anchors : List Nat)
    (hd : inDomainIds g x sub anchors = true) :
    (∀ u ∈ surv g x, ∀ v ∈ surv g x,
      labelsBetween (replaceNode g x sub anchors) (renIds g x u) (renIds g x v) = labelsBetween g u v) ∧
    (∀ i ∈ sub.nodeIds, ∀ j ∈ sub.nodeIds,
      labelsBetween (replaceNode g x sub anchors) (i + ((g.nodes.length : Int) - 1)) (j + ((g.nodes.length : Int) - 1))
        = labelsBetween sub i j) ∧
    (∀ u ∈ surv g x, ∀ j ∈ sub.nodeIds,
      labelsBetween (replaceNode g x sub anchors) (renIds g x u) (j + ((g.nodes.length : Int) - 1))
        = crossLabels g x anchors u j ∧
      labelsBetween (replaceNode g x sub anchors) (j + ((g.nodes.length : Int) - 1)) (renIds g x u)
        = crossLabels g x anchors u j) :=
  have d := E.domI_of_inDomainIds hd
  ⟨fun _ hu _ hv => d.labels_parent hu hv, fun _ hi _ hj => d.labels_pattern hi hj,
    fun _ hu _ hj => ⟨d.labels_cross hu hj, d.labels_cross' hu hj⟩⟩

/-- T3 for arbitrary ids: the incident order after the composition step is `incSpec` -/
theorem compose_incident_order_ids (g : Graph) (x : Int) (sub : Graph) (anchors : List Nat)
    (hd : inDomainIds g x sub anchors = true) : incOfComposeAt (nextId g) g x sub = incSpec g x :=
  (E.domI_of_inDomainIds hd).incident_order

theorem replace_wf_ids (g : Graph) (x : Int) (sub : Graph) (anchors : List Nat)
    (hd : inDomainIds g x sub anchors = true) : wf (replaceNode g x sub anchors) = true :=
  E.wf_of_WF (E.domI_of_inDomainIds hd).w4

/-- the ids of the result are exactly `0..n+m-2` … -/
theorem replace_ids_perm_ids (g : Graph) (x : Int) (sub : Graph) (anchors : List Nat)
    (hd : inDomainIds g x sub anchors = true) :
    (replaceNode g x sub anchors).nodeIds.Perm (E.upto (g.nodes.length + sub.nodes.length - 1)) :=
  (E.domI_of_inDomainIds hd).result_ids

/-- … so whatever the parent's ids were, the result is a graph on contiguous ids (the step iterates on `inDomainAny`) -/
theorem replace_contiguousAny_ids (g : Graph) (x : Int) (sub : Graph) (anchors : List Nat)
    (hd : inDomainIds g x sub anchors = true) : contiguousAny (replaceNode g x sub anchors) = true :=
  E.contiguousAny_of_perm (replace_ids_perm_ids g x sub anchors hd)

/-- parent ids strictly increasing in node order (what `parse(…, idx_offset=k)` and sub-graphs of parsed graphs
    have) and sub-pattern in parse order: the ids of the result are `0, 1, …` in node order -/
theorem replace_contiguous_ids (g : Graph) (x : Int) (sub : Graph) (anchors : List Nat)
    (hd : inDomainIds g x sub anchors = true) (hg : g.nodeIds.Pairwise (· < ·)) (hs : contiguous sub = true) :
    contiguous (replaceNode g x sub anchors) = true := by
  have d := E.domI_of_inDomainIds hd
  have hsub : sub.nodeIds = E.upto sub.nodes.length := by unfold contiguous at hs; exact beq_iff_eq.mp hs
  have hsorted : (E.G3At (nextId g) g x sub anchors).nodeIds.Pairwise (· < ·) := by
    rw [d.G3_ids, List.pairwise_append]
    refine ⟨hg.sublist List.filter_sublist, ?_, ?_⟩
    · rw [hsub]; exact (E.upto_pairwise _).map _ (fun a b h => by omega)
    · intro a ha b hb
      obtain ⟨j, hj, rfl⟩ := List.mem_map.mp hb
      have := (d.s_mem.mp hj).1
      have := d.lt a (d.surv_mem ha).1
      omega
  have hlen : (replaceNode g x sub anchors).nodes.length = (E.G3At (nextId g) g x sub anchors).nodeIds.length := by
    have h := congrArg List.length d.out_ids
    rw [List.length_map] at h
    rw [← h]
    show _ = ((replaceNodeAt (nextId g) g x sub anchors).nodes.map (·.1)).length
    rw [List.length_map]; rfl
  unfold contiguous
  rw [beq_iff_eq, hlen]
  show (replaceNodeAt (nextId g) g x sub anchors).nodeIds = E.upto _
  rw [d.out_ids, map_rank_sorted _ hsorted]

/-- an empty sub-pattern deletes the node together with its bonds: the other nodes keep attributes and mutual
    bonds under the renumbering, and no other node exists -/
theorem replace_empty_ids (g : Graph) (x : Int) (sub : Graph) (anchors : List Nat)
    (hd : inDomainIds g x sub anchors = true) (he : sub.nodes = []) :
    (replaceNode g x sub anchors).nodes = (g.nodes.filter (·.1 != x)).map (fun p => (renIds g x p.1, p.2)) ∧
    ∀ u ∈ surv g x, ∀ v ∈ surv g x,
      labelsBetween (replaceNode g x sub anchors) (renIds g x u) (renIds g x v) = labelsBetween g u v := by
  constructor
  · rw [(replace_exact_ids g x sub anchors hd).nodes]; simp [specNodesIds, he]
  · exact (replace_labels_ids g x sub anchors hd).1

/-! ### the executable checker -/

/-- the executable checker the driver runs on implementation outputs implies `SpecIds` (no hypothesis needed) -/
theorem specCheckIds_sound (g : Graph) (x : Int) (sub : Graph) (anchors : List Nat) (out : Graph)
    (h : specCheckIds g x sub anchors out = true) : SpecIds g x sub anchors out := by
  simp only [specCheckIds, Bool.and_eq_true, List.all_eq_true, beq_iff_eq] at h
  obtain ⟨⟨⟨⟨⟨hm, hn⟩, hcl⟩, hp⟩, hs⟩, hc⟩ := h
  refine ⟨hm, hn, ?_, ?_, ?_, ?_⟩
  · intro u hu v hv; exact List.isPerm_iff.mp (hp u hu v hv)
  · intro i hi j hj; exact List.isPerm_iff.mp (hs i hi j hj)
  · intro u hu j hj
    have := hc u hu j hj
    exact ⟨List.isPerm_iff.mp this.1, List.isPerm_iff.mp this.2⟩
  · intro a b hab
    have hout : out.hasNode a = false ∨ out.hasNode b = false := by
      rcases hab with h | h
      · left
        cases hb : out.hasNode a with
        | false => rfl
        | true => exact absurd ((hasNode_iff out a).mp hb) h
      · right
        cases hb : out.hasNode b with
        | false => rfl
        | true => exact absurd ((hasNode_iff out b).mp hb) h
    unfold labelsBetween
    rw [edgeData_nil_of_closed out (closed_of_closedB out hcl) a b hout]; rfl

/-- the model passes the checker on the whole domain -/
theorem replace_specCheckIds (g : Graph) (x : Int) (sub : Graph) (anchors : List Nat)
    (hd : inDomainIds g x sub anchors = true) :
    specCheckIds g x sub anchors (replaceNode g x sub anchors) = true := by
  have hs := replace_exact_ids g x sub anchors hd
  have hw := replace_wf_ids g x sub anchors hd
  simp only [specCheckIds, Bool.and_eq_true, List.all_eq_true, beq_iff_eq]
  refine ⟨⟨⟨⟨⟨hs.multi, hs.nodes⟩, ?_⟩, ?_⟩, ?_⟩, ?_⟩
  · have hc := closed_of_wf _ hw
    simp only [closedB, List.all_eq_true, Bool.and_eq_true]
    intro r hr
    exact ⟨by simpa using (hasNode_iff _ _).mp (hc r hr).1,
      fun e he => by simpa using (hasNode_iff _ _).mp ((hc r hr).2 e he)⟩
  · intro u hu v hv; exact List.isPerm_iff.mpr (hs.parent u hu v hv)
  · intro i hi j hj; exact List.isPerm_iff.mpr (hs.pattern i hi j hj)
  · intro u hu j hj
    exact ⟨List.isPerm_iff.mpr (hs.cross u hu j hj).1, List.isPerm_iff.mpr (hs.cross u hu j hj).2⟩

/-! ### `SpecIds` generalises `Spec`: on ids `0..n-1` the domain, the renumbering and the node list coincide -/

theorem inDomainIds_of_inDomainAny (g : Graph) (x : Int) (sub : Graph) (anchors : List Nat)
    (h : inDomainAny g x sub anchors = true) : inDomainIds g x sub anchors = true := by
  unfold inDomainAny at h
  unfold inDomainIds
  simp only [Bool.and_eq_true] at h ⊢
  obtain ⟨⟨⟨⟨⟨⟨⟨h1, _⟩, h3⟩, h4⟩, h5⟩, h6⟩, h7⟩, h8⟩ := h
  exact ⟨⟨⟨⟨⟨⟨h1, h3⟩, h4⟩, h5⟩, h6⟩, h7⟩, h8⟩

theorem rank_map_unren (x : Int) (N : Nat) (u : Int) (hu : u ≠ x) :
    rank ((E.upto N).map (unren x)) u = rank (E.upto N) (ren x u) := by
  unfold rank
  rw [List.filter_map, List.length_map]
  congr 2
  apply List.filter_congr
  intro y _
  simp only [Function.comp, unren, ren]
  by_cases h1 : y < x <;> by_cases h2 : u < x <;> simp only [h1, h2, if_true, if_false] <;>
    (apply decide_eq_decide.mpr; omega)

/-- on ids `0..n-1` the rank among the survivors is `u ↦ u` / `u − 1` -/
theorem renIds_eq_ren (g : Graph) (x u : Int) (hc : contiguousAny g = true) (hx : g.hasNode x = true)
    (hu : u ∈ surv g x) : renIds g x u = ren x u := by
  have hp := perm_of_contiguousAny hc
  have hxr : 0 ≤ x ∧ x < (g.nodes.length : Int) := E.mem_upto.mp (hp.mem_iff.mp ((hasNode_iff g x).mp hx))
  have hum := List.mem_filter.mp hu
  have hur : 0 ≤ u ∧ u < (g.nodes.length : Int) := E.mem_upto.mp (hp.mem_iff.mp hum.1)
  have hne : u ≠ x := by simpa using hum.2
  have e : ((List.range (g.nodes.length - 1)).map fun (i : Nat) => unren x (i : Int))
      = (E.upto (g.nodes.length - 1)).map (unren x) := by
    unfold E.upto; rw [List.map_map]; rfl
  unfold renIds surv
  rw [rank_perm (hp.filter _), E.filter_upto_lt _ x hxr.1 hxr.2, e, rank_map_unren x _ u hne]
  have hr : 0 ≤ ren x u ∧ ren x u < ((g.nodes.length - 1 : Nat) : Int) := by
    unfold ren; split <;> omega
  exact rank_upto _ _ hr.1 hr.2

theorem specNodesIds_eq (g : Graph) (x : Int) (sub : Graph) (hc : contiguousAny g = true) (hx : g.hasNode x = true) :
    specNodesIds g x sub = specNodes g x sub := by
  unfold specNodesIds specNodes
  congr 1
  apply List.map_congr_left
  intro p hp
  have hm : p.1 ∈ surv g x := by
    have := List.mem_filter.mp hp
    exact List.mem_filter.mpr ⟨List.mem_map.mpr ⟨p, this.1, rfl⟩, this.2⟩
  rw [renIds_eq_ren g x p.1 hc hx hm]

/-! ### tests (non-vacuity on concrete inputs; these are tests, not part of the proofs) -/
section Tests

private def mkG (multi : Bool) (nodes : List (Int × NodeAttr)) (es : List Edge) : Graph :=
  addEdgesFrom { multi := multi, nodes := nodes, adj := nodes.map fun n => (n.1, []) } es
private def atom (i : Int) (s : String) : Int × NodeAttr := (i, { symbol := some s, labels := some [], isLabeled := some false })
private def lab (i : Int) (l : String) : Int × NodeAttr := (i, { symbol := some "#", labels := some [l], isLabeled := some true })

/-- the ring `C1C{g}(C)1` on the sparse, shuffled, partly negative ids 7, -3, 2, 40 (node order 40, -3, 2, 7; the
    label node is 2) with a parallel bond 2=-3 -/
private def ringI : Graph :=
  mkG true [atom 40 "C", atom (-3) "C", lab 2 "g", atom 7 "C"]
    [(2,40,0,.s 6), (-3,7,0,.s 2), (2,-3,0,.s 8), (7,2,0,.s 4), (2,-3,1,.s 10)]
private def no : Graph := mkG true [atom 0 "N", atom 1 "O"] [(0,1,0,.s 3)]
/-- `parse("C{g}C", idx_offset=2)` -/
private def chain2 : Graph := mkG true [atom 2 "C", lab 3 "g", atom 4 "C"] [(2,3,0,.s 2), (3,4,0,.s 2)]

example : inDomainIds ringI 2 no [0, 1] = true ∧ inDomainAny ringI 2 no [0, 1] = false := by decide +kernel
example : nextId ringI = 41 := by decide +kernel
example : incSpec ringI 2 = [(40, .s 6), (-3, .s 8), (-3, .s 10), (7, .s 4)] := by decide +kernel
-- ranks of the survivors 40, -3, 7 are 2, 0, 1 (node order kept), then N = 3, O = 4
example : (replaceNode ringI 2 no [0, 1]).nodeIds = [2, 0, 1, 3, 4] := by decide +kernel
-- bond of 40 → anchor 0 (N = 3), first bond of -3 → anchor 1 (O = 4), overflow: second bond of -3 and bond of 7 → O
example : labelsBetween (replaceNode ringI 2 no [0, 1]) 2 3 = [.s 6]
    ∧ labelsBetween (replaceNode ringI 2 no [0, 1]) 0 4 = [.s 8, .s 10]
    ∧ labelsBetween (replaceNode ringI 2 no [0, 1]) 1 4 = [.s 4]
    ∧ labelsBetween (replaceNode ringI 2 no [0, 1]) 0 1 = [.s 2]
    ∧ labelsBetween (replaceNode ringI 2 no [0, 1]) 0 3 = [] := by decide +kernel
example : specCheckIds ringI 2 no [0, 1] (replaceNode ringI 2 no [0, 1]) = true := by decide +kernel
-- the function before the repair fails the specification on offset ids (`C{g}C` at offset 2: the inserted `N` takes the id of the
-- replaced node, `O` that of a carbon; 2 nodes are left instead of 4) …
example : inDomainIds chain2 3 no [0] = true
    ∧ specCheckIds chain2 3 no [0] (replaceNodeLen chain2 3 no [0]) = false
    ∧ (replaceNodeLen chain2 3 no [0]).nodes.length = 2 := by decide +kernel
-- … the repaired one meets it
example : specCheckIds chain2 3 no [0] (replaceNode chain2 3 no [0]) = true
    ∧ (replaceNode chain2 3 no [0]).nodeIds = [0, 1, 2, 3] := by decide +kernel
-- a result with the bonds on the wrong anchor is rejected
example : specCheckIds ringI 2 no [0, 1] (replaceNode ringI 2 no [1, 0]) = false := by decide +kernel
-- the theorem applies
example : SpecIds ringI 2 no [0, 1] (replaceNode ringI 2 no [0, 1]) :=
  replace_exact_ids ringI 2 no [0, 1] (by decide +kernel)

end Tests

end C13
