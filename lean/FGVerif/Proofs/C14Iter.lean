import FGVerif.Proofs.C14Cons
/-!
  C14 — conservation at the `iter(Proxy)` level (after `aam` assignment and the `nx.Graph(multigraph)`
  collapse of `Proxy.__generate`).

  * `C14.collapse_exact`            for a well-formed graph without parallel bonds (`noParallel`) the collapsed
                                    simple graph is well-formed, has the same node list and, between any two
                                    names, exactly the same bond labels
  * `C14.finish_symbols`            `finish` (aam + collapse) never changes the symbols (no side condition)
  * `C14.finish_bonds`              under the side condition `sideOk` (simple graph, or multigraph without
                                    parallel bonds) `finish` keeps the multiset of bond labels
  * `C14.finish_aam`                with `aam` enabled every node of the sample has `aam = id + 1`
  * `C14.conservation_iter_symbols` every sample of the traced enumeration `generateT`: symbols + one "#" per
                                    replaced node ~ symbols of the chosen patterns — unconditionally
  * `C14.conservation_iter`         every sample passes `conservedIterB`: symbols as above, and — when the
                                    `build_graphs` result it was finished from satisfies `sideOk` — bond labels +
                                    bonds dropped with empty patterns ~ bond labels of the chosen patterns
  * `C14.generateT_projection`      forgetting the bookkeeping of `generateT` gives exactly `generate`
  * `C14.conservation_iter_plain`   hence every sample of `generate` has such a trace
  * `C14.collapse_loses_parallel`   (witness, `decide`) the side condition is needed: with parallel bonds the
                                    collapsed graph has fewer bond labels

  Hypotheses: the decidable predicates of `C14.conservation` for every core graph.
-/
set_option linter.unusedSimpArgs false
namespace C14
open C13 C13.E Graph

namespace I

/-! ### `setAam` -/

theorem setAam_nodeIds (g : Graph) : (setAam g).nodeIds = g.nodeIds := by
  simp [setAam, Graph.nodeIds, Function.comp_def]

theorem setAam_nodes_length (g : Graph) : (setAam g).nodes.length = g.nodes.length := by
  simp [setAam]

theorem WF_setAam {g : Graph} (w : WF g) : WF (setAam g) := by
  refine ⟨?_, ?_, w.nbrNodup, ?_, w.nonempty, w.keysNodup, w.simple, w.symm⟩
  · show ids g.adj = (setAam g).nodeIds
    rw [setAam_nodeIds]; exact w.rows
  · rw [setAam_nodeIds]; exact w.nodup
  · intro u v h
    rw [setAam_nodeIds]; exact w.closed u v h

theorem setAam_symbols (g : Graph) : symbolsOf (setAam g) = symbolsOf g := by
  simp [symbolsOf, setAam, Function.comp_def]

theorem setAam_bonds (g : Graph) : bondLabelsOf (setAam g) = bondLabelsOf g := rfl

theorem setAam_noParallel (g : Graph) : noParallel (setAam g) = noParallel g := rfl

theorem setAam_aam (g : Graph) : (setAam g).nodes.all (fun p => p.2.aam == some (p.1 + 1)) = true := by
  simp [setAam, List.all_map, Function.comp_def]

/-! ### `collapse` -/

/-- the graph `nx.Graph(multigraph)` starts from: the nodes, no bonds -/
def collapseBase (g : Graph) : Graph :=
  { multi := false, nodes := g.nodes, adj := g.nodes.map fun n => (n.1, []) }

def collapseEdges (g : Graph) : List Edge := g.edges.map fun e => (e.1, e.2.1, 0, e.2.2.2)

theorem collapse_eq (g : Graph) : collapse g = addEdgesFrom (collapseBase g) (collapseEdges g) := rfl

theorem collapseBase_nodeIds (g : Graph) : (collapseBase g).nodeIds = g.nodeIds := rfl

theorem WF_collapseBase {g : Graph} (hn : g.nodeIds.Nodup) : WF (collapseBase g) := by
  apply WF_of_rows_nil
  · show ids (collapseBase g).adj = (collapseBase g).nodeIds
    simp [collapseBase, Graph.nodeIds, ids, Function.comp_def]
  · exact hn
  · intro a; rw [adjRow_eq]; exact lk_const_nil _ a

theorem collapseBase_edgeData (g : Graph) (a b : Int) : (collapseBase g).edgeData a b = [] := by
  rw [edgeData_eq]
  have : lk (collapseBase g).adj a = [] := lk_const_nil _ a
  rw [this]; rfl

theorem collapse_endsIn {g : Graph} (w : WF g) : EndsIn (collapseBase g).nodeIds (collapseEdges g) := by
  intro e he
  obtain ⟨e0, he0, rfl⟩ := List.mem_map.mp he
  exact edges_endsIn w e0 he0

theorem WF_collapse {g : Graph} (w : WF g) : WF (collapse g) := by
  rw [collapse_eq]
  apply WF_addEdgesFrom (WF_collapseBase w.nodup) (collapse_endsIn w)
  intro _ e he
  obtain ⟨e0, _, rfl⟩ := List.mem_map.mp he
  rfl

theorem collapse_nodes {g : Graph} (w : WF g) : (collapse g).nodes = g.nodes := by
  rw [collapse_eq, addEdgesFrom_nodes (collapse_endsIn w)]; rfl

theorem collapse_multi {g : Graph} (w : WF g) : (collapse g).multi = false := by
  rw [collapse_eq, addEdgesFrom_multi (collapse_endsIn w)]; rfl

theorem sel_collapseEdges (E : List Edge) (a b : Int) :
    sel a b (E.map fun e => (e.1, e.2.1, 0, e.2.2.2)) = (sel a b E).map fun kd => (0, kd.2) := by
  induction E with
  | nil => rfl
  | cons e E ih =>
    rw [List.map_cons, sel_cons, sel_cons, ih, List.map_append]
    by_cases h : (e.1 = a ∧ e.2.1 = b) ∨ (e.1 = b ∧ e.2.1 = a) <;> simp [h]

/-- `noParallel` as a statement about the accessors -/
theorem noParallel_edgeData {g : Graph} (h : noParallel g = true) (a b : Int) : (g.edgeData a b).length ≤ 1 := by
  unfold noParallel at h
  simp only [List.all_eq_true, decide_eq_true_eq] at h
  unfold Graph.edgeData Graph.adjRow
  cases hf : g.adj.find? (·.1 == a) with
  | none => simp
  | some r =>
    simp only
    cases hf2 : r.2.find? (·.1 == b) with
    | none => simp
    | some e => exact h r (List.mem_of_find?_eq_some hf) e (List.mem_of_find?_eq_some hf2)

/-- the bonds between `a` and `b` after the collapse, when `a` and `b` are joined by at most one bond -/
theorem collapse_edgeData {g : Graph} (w : WF g) (a b : Int) (h1 : (g.edgeData a b).length ≤ 1) :
    (collapse g).edgeData a b = (g.edgeData a b).map fun kd => (0, kd.2) := by
  have hsel : sel a b (collapseEdges g) = (g.edgeData a b).map fun kd => (0, kd.2) := by
    unfold collapseEdges; rw [sel_collapseEdges, sel_edges w]
  rw [collapse_eq, edgeData_addEdgesFrom (WF_collapseBase w.nodup).rows (collapse_endsIn w), hsel,
    collapseBase_edgeData]
  · rfl
  · rw [hsel, collapseBase_edgeData]
    match hd : g.edgeData a b, h1 with
    | [], _ => simp [keys]
    | [x], _ => simp [keys]
    | _ :: _ :: _, h => simp at h

theorem collapse_labels {g : Graph} (w : WF g) (hp : noParallel g = true) (a b : Int) :
    labelsBetween (collapse g) a b = labelsBetween g a b := by
  unfold labelsBetween
  rw [collapse_edgeData w a b (noParallel_edgeData hp a b), List.map_map]
  rfl

/-- labels agree between every pair of names ⇒ same multiset of bond labels -/
theorem bondLabels_perm_of_labels {g g' : Graph} (w : WF g) (w' : WF g')
    (h : ∀ a b, labelsBetween g' a b = labelsBetween g a b) : (bondLabelsOf g').Perm (bondLabelsOf g) := by
  have := Q.perm_of_selL (T1 := Q.tri g'.edges) (T2 := Q.tri g.edges)
    (fun a b => by rw [Q.selL_tri_edges w', Q.selL_tri_edges w, h a b])
  rw [Q.tri_lbl, Q.tri_lbl] at this
  exact this

theorem collapse_bonds {g : Graph} (w : WF g) (hp : noParallel g = true) :
    (bondLabelsOf (collapse g)).Perm (bondLabelsOf g) :=
  bondLabels_perm_of_labels w (WF_collapse w) (collapse_labels w hp)

theorem collapse_symbols {g : Graph} (w : WF g) : symbolsOf (collapse g) = symbolsOf g := by
  unfold symbolsOf; rw [collapse_nodes w]

/-! ### `finish` -/

theorem finish_nodes {g : Graph} (w : WF g) (aam : Bool) :
    (finish aam g).nodes = if aam then (setAam g).nodes else g.nodes := by
  unfold finish
  cases aam
  · simp only [Bool.false_eq_true, if_false]
    split
    · exact collapse_nodes w
    · rfl
  · simp only [if_true]
    split
    · exact collapse_nodes (WF_setAam w)
    · rfl

theorem WF_finish {g : Graph} (w : WF g) (aam : Bool) : WF (finish aam g) := by
  unfold finish
  cases aam
  · simp only [Bool.false_eq_true, if_false]
    split
    · exact WF_collapse w
    · exact w
  · simp only [if_true]
    split
    · exact WF_collapse (WF_setAam w)
    · exact WF_setAam w

end I

open I

/-! ### property theorems -/

/-- the `nx.Graph(multigraph)` collapse of a well-formed graph without parallel bonds: well-formed simple
    graph on the same node list with exactly the same bond labels between any two names -/
theorem collapse_exact (g : Graph) (hw : wf g = true) (hp : noParallel g = true) :
    wf (collapse g) = true ∧ (collapse g).multi = false ∧ (collapse g).nodes = g.nodes ∧
    (∀ a b : Int, labelsBetween (collapse g) a b = labelsBetween g a b) ∧
    (bondLabelsOf (collapse g)).Perm (bondLabelsOf g) := by
  have w := WF_of_wf hw
  exact ⟨wf_of_WF (WF_collapse w), collapse_multi w, collapse_nodes w, collapse_labels w hp, collapse_bonds w hp⟩

/-- finishing a sample never changes its atom symbols -/
theorem finish_symbols (g : Graph) (hw : wf g = true) (aam : Bool) : symbolsOf (finish aam g) = symbolsOf g := by
  have w := WF_of_wf hw
  unfold symbolsOf
  rw [finish_nodes w]
  cases aam
  · rfl
  · exact setAam_symbols g

/-- finishing a sample keeps the node ids (and their order) -/
theorem finish_nodeIds (g : Graph) (hw : wf g = true) (aam : Bool) : (finish aam g).nodeIds = g.nodeIds := by
  have w := WF_of_wf hw
  unfold Graph.nodeIds
  rw [finish_nodes w]
  cases aam
  · rfl
  · exact setAam_nodeIds g

/-- with `aam` enabled every node of a finished sample carries `aam = id + 1` -/
theorem finish_aam (g : Graph) (hw : wf g = true) :
    (finish true g).nodes.all (fun p => p.2.aam == some (p.1 + 1)) = true := by
  rw [finish_nodes (WF_of_wf hw)]; exact setAam_aam g

/-- a finished sample is a well-formed graph; it is simple when the result was a multigraph -/
theorem finish_wf (g : Graph) (hw : wf g = true) (aam : Bool) : wf (finish aam g) = true :=
  wf_of_WF (WF_finish (WF_of_wf hw) aam)

/-- under the side condition (simple graph, or multigraph without parallel bonds) finishing a sample keeps
    the bond labels between any two names, hence their multiset -/
theorem finish_labels (g : Graph) (hw : wf g = true) (aam : Bool) (hs : sideOk g = true) (a b : Int) :
    labelsBetween (finish aam g) a b = labelsBetween g a b := by
  have w := WF_of_wf hw
  unfold sideOk at hs
  unfold finish
  cases hm : g.multi
  · cases aam
    · simp [hm]
    · have : (setAam g).multi = false := hm
      simp only [if_true, this, Bool.false_eq_true, if_false]; rfl
  · rw [hm] at hs
    have hp : noParallel g = true := by simpa using hs
    cases aam
    · simp only [Bool.false_eq_true, if_false, hm, if_true]
      exact collapse_labels w hp a b
    · have : (setAam g).multi = true := hm
      simp only [if_true, this]
      rw [collapse_labels (WF_setAam w) ((setAam_noParallel g).trans hp) a b]; rfl

theorem finish_bonds (g : Graph) (hw : wf g = true) (aam : Bool) (hs : sideOk g = true) :
    (bondLabelsOf (finish aam g)).Perm (bondLabelsOf g) :=
  bondLabels_perm_of_labels (WF_of_wf hw) (WF_finish (WF_of_wf hw) aam) (finish_labels g hw aam hs)

/-! ### the traced enumeration -/

/-- every sample of `generateT` is a finished traced result of `build_graphs` on one of the cores -/
theorem generateT_mem (cfg : Config) (fuel : Nat) (aam : Bool) : ∀ (cores : List Graph) (rs : List (Graph × Graph × Trace)),
    generateT cfg fuel aam cores = .ok rs → ∀ r ∈ rs, ∃ core ∈ cores, ∃ ts, buildGraphsT cfg fuel core = .ok ts ∧
      ∃ gt ∈ ts, r = (gt.1, finish aam gt.1, gt.2) := by
  intro cores
  induction cores with
  | nil => intro rs h r hr; simp [generateT] at h; subst h; simp at hr
  | cons core rest ih =>
    intro rs h r hr
    simp only [generateT, bind, Except.bind] at h
    cases hb : buildGraphsT cfg fuel core with
    | error e => rw [hb] at h; simp at h
    | ok ts =>
      rw [hb] at h
      cases hg : generateT cfg fuel aam rest with
      | error e => rw [hg] at h; simp at h
      | ok more =>
        rw [hg] at h
        simp only [pure, Except.pure, Except.ok.injEq] at h
        subst h
        rcases List.mem_append.mp hr with hr | hr
        · rcases List.mem_map.mp hr with ⟨gt, hgt, rfl⟩
          exact ⟨core, List.mem_cons_self, ts, hb, gt, hgt, rfl⟩
        · rcases ih more hg r hr with ⟨c, hc, ts', hts', gt, hgt, hrg⟩
          exact ⟨c, List.mem_cons_of_mem _ hc, ts', hts', gt, hgt, hrg⟩

/-- the traced enumeration is the plain one with bookkeeping -/
theorem generateT_projection (cfg : Config) (fuel : Nat) (aam : Bool) (cores : List Graph) :
    (generateT cfg fuel aam cores).map (fun rs => rs.map (·.2.1)) = generate cfg fuel aam cores := by
  induction cores with
  | nil => rfl
  | cons core rest ih =>
    have hp := traced_projection cfg fuel core
    simp only [generateT, generate, bind, Except.bind]
    cases hb : buildGraphsT cfg fuel core with
    | error e =>
      rw [hb] at hp
      cases hb' : buildGraphs cfg fuel core with
      | error e' => rw [hb'] at hp; simp only [Except.map] at hp ⊢; rw [hp]
      | ok gs => rw [hb'] at hp; simp [Except.map] at hp
    | ok ts =>
      rw [hb] at hp
      cases hb' : buildGraphs cfg fuel core with
      | error e' => rw [hb'] at hp; simp [Except.map] at hp
      | ok gs =>
        rw [hb'] at hp
        have hgs : ts.map (·.1) = gs := by simpa [Except.map] using hp
        simp only
        cases hg : generateT cfg fuel aam rest with
        | error e => rw [hg] at ih; simp only [Except.map] at ih ⊢; rw [← ih]
        | ok more =>
          rw [hg] at ih
          simp only [Except.map] at ih ⊢
          rw [← ih]
          simp only [pure, Except.pure, List.map_append, List.map_map, Function.comp_def, ← hgs]

/-- the hypotheses of the conservation theorems for one core graph -/
def coreOk (cfg : Config) (core : Graph) : Bool :=
  cfgEdgeOk cfg core.multi && hashOk cfg core && wf core && contiguous core && noLoopOnGroupNodes cfg core

/-- **conservation of atom symbols at the `iter(Proxy)` level** (no side condition): the symbols of every
    sample, plus one "#" per replaced label node, are the symbols of the patterns chosen along its combination -/
theorem conservation_iter_symbols (cfg : Config) (fuel : Nat) (aam : Bool) (cores : List Graph)
    (rs : List (Graph × Graph × Trace))
    (hcfg : cfgOk cfg = true) (hpat : cfg.all (fun grp => grp.graphs.all fun pg => hashOk cfg pg.pattern) = true)
    (hcores : ∀ c ∈ cores, coreOk cfg c = true)
    (h : generateT cfg fuel aam cores = .ok rs) :
    ∀ r ∈ rs, (symbolsOf r.2.1 ++ List.replicate r.2.2.replaced "#").Perm r.2.2.symbols := by
  intro r hr
  obtain ⟨core, hc, ts, hts, gt, hgt, rfl⟩ := generateT_mem cfg fuel aam cores rs h r hr
  have hco := hcores core hc
  simp only [coreOk, Bool.and_eq_true] at hco
  obtain ⟨⟨⟨⟨h1, h2⟩, h3⟩, h4⟩, h5⟩ := hco
  have hinv := Q.inv_results cfg fuel core ts hcfg h1 ⟨h2, hpat⟩ ⟨h3, h4, h5⟩ hts gt hgt
  show (symbolsOf (finish aam gt.1) ++ List.replicate gt.2.replaced "#").Perm gt.2.symbols
  rw [finish_symbols gt.1 hinv.1.wf aam]
  exact hinv.1.syms

/-- **conservation at the `iter(Proxy)` level**: every sample passes the executable check `conservedIterB`:
    its symbols (+ one "#" per replaced node) are those of the chosen patterns, and — when the `build_graphs`
    result it was finished from is simple or has no parallel bonds (`sideOk`) — its bond labels (+ the bonds of
    nodes replaced by the empty pattern) are those of the chosen patterns, as multisets -/
theorem conservation_iter (cfg : Config) (fuel : Nat) (aam : Bool) (cores : List Graph)
    (rs : List (Graph × Graph × Trace))
    (hcfg : cfgOk cfg = true) (hpat : cfg.all (fun grp => grp.graphs.all fun pg => hashOk cfg pg.pattern) = true)
    (hcores : ∀ c ∈ cores, coreOk cfg c = true)
    (h : generateT cfg fuel aam cores = .ok rs) :
    ∀ r ∈ rs, conservedIterB r = true ∧
      (sideOk r.1 = true → (bondLabelsOf r.2.1 ++ r.2.2.dropped).Perm r.2.2.bonds) ∧
      (sideOk r.1 = true → ∀ a b : Int, labelsBetween r.2.1 a b = labelsBetween r.1 a b) ∧
      r.2.1.nodeIds = r.1.nodeIds ∧ wf r.2.1 = true ∧
      (aam = true → r.2.1.nodes.all (fun p => p.2.aam == some (p.1 + 1)) = true) := by
  intro r hr
  have hsym := conservation_iter_symbols cfg fuel aam cores rs hcfg hpat hcores h r hr
  obtain ⟨core, hc, ts, hts, gt, hgt, rfl⟩ := generateT_mem cfg fuel aam cores rs h r hr
  have hco := hcores core hc
  simp only [coreOk, Bool.and_eq_true] at hco
  obtain ⟨⟨⟨⟨h1, h2⟩, h3⟩, h4⟩, h5⟩ := hco
  have hinv := Q.inv_results cfg fuel core ts hcfg h1 ⟨h2, hpat⟩ ⟨h3, h4, h5⟩ hts gt hgt
  have hbonds : sideOk gt.1 = true → (bondLabelsOf (finish aam gt.1) ++ gt.2.dropped).Perm gt.2.bonds :=
    fun hs => ((finish_bonds gt.1 hinv.1.wf aam hs).append_right _).trans hinv.2
  refine ⟨?_, hbonds, fun hs => finish_labels gt.1 hinv.1.wf aam hs, finish_nodeIds gt.1 hinv.1.wf aam,
    finish_wf gt.1 hinv.1.wf aam, fun ha => by subst ha; exact finish_aam gt.1 hinv.1.wf⟩
  unfold conservedIterB
  rw [Bool.and_eq_true]
  refine ⟨List.isPerm_iff.mpr hsym, ?_⟩
  cases hs : sideOk gt.1
  · rfl
  · simp only [Bool.not_true, Bool.false_or]
    exact List.isPerm_iff.mpr (hbonds hs)

/-- every graph `iter(Proxy)` yields comes with the `build_graphs` result and the trace that satisfy the
    conservation equations -/
theorem conservation_iter_plain (cfg : Config) (fuel : Nat) (aam : Bool) (cores : List Graph) (xs : List Graph)
    (hcfg : cfgOk cfg = true) (hpat : cfg.all (fun grp => grp.graphs.all fun pg => hashOk cfg pg.pattern) = true)
    (hcores : ∀ c ∈ cores, coreOk cfg c = true)
    (h : generate cfg fuel aam cores = .ok xs) :
    ∃ rs, generateT cfg fuel aam cores = .ok rs ∧ rs.map (·.2.1) = xs ∧ ∀ r ∈ rs, conservedIterB r = true := by
  have hp := generateT_projection cfg fuel aam cores
  rw [h] at hp
  cases ht : generateT cfg fuel aam cores with
  | error e => rw [ht] at hp; cases hp
  | ok rs =>
    rw [ht] at hp
    refine ⟨rs, rfl, ?_, fun r hr => (conservation_iter cfg fuel aam cores rs hcfg hpat hcores ht r hr).1⟩
    simpa [Except.map] using hp

/-! ### tests (non-vacuity on concrete inputs; these are tests, not part of the proofs) -/
section Tests

private def mkG (multi : Bool) (nodes : List (Int × NodeAttr)) (es : List Edge) : Graph :=
  addEdgesFrom { multi := multi, nodes := nodes, adj := nodes.map fun n => (n.1, []) } es
private def atom (i : Int) (s : String) : Int × NodeAttr := (i, { symbol := some s, labels := some [], isLabeled := some false })
private def lab (i : Int) (l : String) : Int × NodeAttr := (i, { symbol := some "#", labels := some [l], isLabeled := some true })

/-- `C1{g}1`: the ring closure gives two parallel bonds 0–1 -/
private def par : Graph := mkG true [atom 0 "C", lab 1 "g"] [(0,1,0,.s 2), (0,1,1,.s 4)]
/-- `C{g}C` -/
private def chain : Graph := mkG true [atom 0 "C", lab 1 "g", atom 2 "C"] [(0,1,0,.s 2), (1,2,0,.s 4)]
private def o1 : Graph := mkG true [atom 0 "O"] []
private def no : Graph := mkG true [atom 0 "N", atom 1 "O"] [(0,1,0,.s 3)]
private def cfgT : Config := [{ key := "g", name := "g", graphs := [⟨o1, [0]⟩, ⟨no, [0, 1]⟩] }]

private def okOr {α : Type} (d : α) : Except Err α → α
  | .ok a => a
  | .error _ => d

example : cfgOk cfgT = true ∧ cfgT.all (fun grp => grp.graphs.all fun pg => hashOk cfgT pg.pattern) = true
    ∧ coreOk cfgT par = true ∧ coreOk cfgT chain = true := by decide +kernel
-- the chain: both samples satisfy the side condition and conserve symbols and bonds
example : okOr [] ((generateT cfgT 10 true [chain]).map fun rs => rs.map fun r => (sideOk r.1, conservedIterB r,
    decide ((bondLabelsOf r.2.1 ++ r.2.2.dropped).Perm r.2.2.bonds)))
    = [(true, true, true), (true, true, true)] := by decide +kernel
-- the ring closure: the first sample keeps two parallel bonds O=C (side condition fails, one label is lost in the
-- collapse); in the second one the two bonds go to different anchors
example : okOr [] ((generateT cfgT 10 true [par]).map fun rs => rs.map fun r => (sideOk r.1, conservedIterB r,
    decide ((bondLabelsOf r.2.1 ++ r.2.2.dropped).Perm r.2.2.bonds), bondLabelsOf r.1, bondLabelsOf r.2.1))
    = [(false, true, false, [.s 2, .s 4], [.s 4]), (true, true, true, [.s 2, .s 4, .s 3], [.s 2, .s 4, .s 3])] := by
  decide +kernel
-- the theorem applies
example : ∀ rs, generateT cfgT 10 true [par, chain] = .ok rs → ∀ r ∈ rs, conservedIterB r = true :=
  fun rs h r hr => (conservation_iter cfgT 10 true [par, chain] rs (by decide +kernel) (by decide +kernel)
    (by decide +kernel) h r hr).1
-- the checker rejects a sample whose bonds are not those of the trace although the side condition holds
example : conservedIterB (chain, finish true chain, { symbols := symbolsOf chain, bonds := [.s 2] }) = false := by
  decide +kernel

end Tests

/-- the side condition is needed: a well-formed multigraph with two parallel bonds loses a label in the collapse -/
theorem collapse_loses_parallel :
    ∃ g : Graph, wf g = true ∧ noParallel g = false ∧ ¬ (bondLabelsOf (collapse g)).Perm (bondLabelsOf g) :=
  ⟨addEdgesFrom { multi := true, nodes := [(0, {}), (1, {})], adj := [(0, []), (1, [])] } [(0,1,0,.s 2), (0,1,1,.s 4)],
    by decide +kernel, by decide +kernel, by decide +kernel⟩

end C14
