import FGVerif.Proofs.C16Check
namespace C16

/-! ### the constructive form of the specification (`expectedIts`) meets the declarative one -/

theorem lookupE_kept (g : MolGraph) (rc : ITSGraph) (m : Match) (u v : Int) :
    lookupE (g.edges.map (expKept rc m)) u v
      = (g.bond? u v).map fun b => (b, match rcLabelAt rc m u v with | some lr => lr.2 | none => b) := by
  unfold MolGraph.bond?
  induction g.edges with
  | nil => rfl
  | cons e es ih =>
    rw [List.map_cons, lookupE_cons, lookupE_cons, ih]
    have h1 : (expKept rc m e).1 = e.1 := rfl
    have h2 : (expKept rc m e).2.1 = e.2.1 := rfl
    rw [h1, h2]
    by_cases hh : hit e.1 e.2.1 u v = true
    · simp only [hh, if_true, Option.map_some]
      rw [hit_iff] at hh
      rcases hh with ⟨e1, e2⟩ | ⟨e1, e2⟩
      · simp only [expKept, e1, e2]; rfl
      · simp only [expKept, e1, e2]; rw [rcLabelAt_symm]; rfl
    · simp [hh]

theorem mem_added (g : MolGraph) (m : Match) (es : List (E (Int × Int))) (t : E (Int × Int)) :
    t ∈ es.filterMap (expAdded g m) ↔
      ∃ e ∈ es, invM m e.1 = some t.1 ∧ invM m e.2.1 = some t.2.1 ∧ e.2.2.2 ≠ 0 ∧
        g.hasEdge t.1 t.2.1 = false ∧ t.2.2 = (0, e.2.2.2) := by
  rw [List.mem_filterMap]
  constructor
  · rintro ⟨e, he, h⟩
    refine ⟨e, he, ?_⟩
    unfold expAdded at h
    cases h1 : invM m e.1 with
    | none => simp [h1] at h
    | some a =>
      cases h2 : invM m e.2.1 with
      | none => simp [h1, h2] at h
      | some b =>
        simp only [h1, h2] at h
        by_cases hc : (decide (e.2.2.2 = 0) || g.hasEdge a b) = true
        · simp [hc] at h
        · simp only [hc] at h
          simp only [Bool.or_eq_true, decide_eq_true_eq, not_or, Bool.not_eq_true] at hc
          simp at h; subst h
          exact ⟨rfl, rfl, hc.1, hc.2, rfl⟩
  · rintro ⟨e, he, h1, h2, h3, h4, h5⟩
    refine ⟨e, he, ?_⟩
    unfold expAdded
    simp only [h1, h2, h3, h4, decide_false, Bool.or_false, Bool.false_eq_true, if_false]
    rw [← h5]

theorem expectedIts_label (g : MolGraph) (rc : ITSGraph) (m : Match) (hm : MatchInj m)
    (hrc : NodupPairs rc.edges) (u v : Int) :
    (expectedIts g rc m).label? u v = expLabel g rc m u v := by
  unfold expectedIts ITSGraph.label?
  simp only
  rw [lookupE_append, lookupE_kept]
  unfold expLabel
  cases hb : g.bond? u v with
  | some b => cases rcLabelAt rc m u v <;> simp
  | none =>
    simp only [Option.map_none, Option.none_or]
    cases hl : lookupE (rc.edges.filterMap (expAdded g m)) u v with
    | some a =>
      obtain ⟨t, ht, hh, hlab⟩ := lookupE_some_mem _ _ _ _ hl
      obtain ⟨e, he, i1, i2, h0, _, hlab'⟩ := (mem_added g m rc.edges t).mp ht
      have g1 := (getM_iff_invM m hm t.1 e.1).mpr i1
      have g2 := (getM_iff_invM m hm t.2.1 e.2.1).mpr i2
      unfold rcLabelAt ITSGraph.label?
      rw [hit_iff] at hh
      rcases hh with ⟨e1, e2⟩ | ⟨e1, e2⟩
      · rw [← e1, ← e2, g1, g2]
        simp only
        rw [lookupE_of_mem rc.edges hrc e he e.1 e.2.1 (by simp [hit])]
        simp [h0, ← hlab, hlab']
      · rw [← e1, ← e2, g1, g2]
        simp only
        rw [lookupE_of_mem rc.edges hrc e he e.2.1 e.1 (by simp [hit])]
        simp [h0, ← hlab, hlab']
    | none =>
      cases hr : rcLabelAt rc m u v with
      | none => rfl
      | some lr =>
        simp only
        by_cases h0 : lr.2 = 0
        · simp [h0]
        · exfalso
          unfold rcLabelAt ITSGraph.label? at hr
          cases hu : getM m u with
          | none => rw [hu] at hr; simp at hr
          | some x =>
            cases hv : getM m v with
            | none => rw [hu, hv] at hr; simp at hr
            | some y =>
              rw [hu, hv] at hr
              simp only at hr
              obtain ⟨e, he, hh, hlab⟩ := lookupE_some_mem _ _ _ _ hr
              have i1 := (getM_iff_invM m hm u x).mp hu
              have i2 := (getM_iff_invM m hm v y).mp hv
              have hne : e.2.2.2 ≠ 0 := by rw [hlab]; exact h0
              have hg1 : g.hasEdge u v = false := by simp [MolGraph.hasEdge, hb]
              have hg2 : g.hasEdge v u = false := by
                unfold MolGraph.hasEdge MolGraph.bond? at *; rw [lookupE_symm]; exact hg1
              rw [lookupE_eq_none] at hl
              rw [hit_iff] at hh
              rcases hh with ⟨e1, e2⟩ | ⟨e1, e2⟩
              · have hmem : (u, v, ((0 : Int), e.2.2.2)) ∈ rc.edges.filterMap (expAdded g m) :=
                  (mem_added g m rc.edges _).mpr ⟨e, he, by simpa [e1] using i1, by simpa [e2] using i2, hne, hg1, rfl⟩
                have := hl _ hmem
                simp [hit] at this
              · have hmem : (v, u, ((0 : Int), e.2.2.2)) ∈ rc.edges.filterMap (expAdded g m) :=
                  (mem_added g m rc.edges _).mpr ⟨e, he, by simpa [e1] using i2, by simpa [e2] using i1, hne, hg2, rfl⟩
                have := hl _ hmem
                simp [hit] at this

/-- the graph built from the wording of the property is the one the declarative statement describes -/
theorem expectedIts_isExpected (g : MolGraph) (rc : ITSGraph) (m : Match) (hm : MatchInj m)
    (hrc : NodupPairs rc.edges) : IsExpected g rc m (expectedIts g rc m) :=
  ⟨rfl, expectedIts_label g rc m hm hrc⟩

/-- … hence the model's graph and the constructive specification agree -/
theorem applyMatch_equiv_expectedIts (g : MolGraph) (rc : ITSGraph) (m : Match) (hm : MatchInj m) (hrc : RcWF rc) :
    ItsEquiv (applyMatch g (mkRule rc) m) (expectedIts g rc m) :=
  ⟨rfl, fun u v => by rw [applyMatch_label g rc m hm hrc, expectedIts_label g rc m hm hrc.nodup]⟩

end C16
