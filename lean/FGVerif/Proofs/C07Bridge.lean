import FGVerif.Proofs.C07
/-!
  C07 — the algorithm with the "matches in both directions" assertion (`buildTreeE`, what the
  driver runs and compares with the implementation) coincides with the pure algorithm of the
  theorems (`buildTree`) whenever the assertion cannot fire on two distinct list entries.
-/
namespace C07

theorem foldlM_eq_some {β γ} (f : β → γ → Option β) (g : β → γ → β) (h : ∀ b x, f b x = some (g b x)) :
    ∀ (L : List γ) (acc : β), L.foldlM f acc = some (L.foldl g acc) := by
  intro L
  induction L with
  | nil => intro acc; rfl
  | cons x xs ih =>
    intro acc
    simp only [List.foldlM_cons, List.foldl_cons, h]
    exact ih _

theorem searchParentsE_eq (RE : Nat → Nat → Option Bool) (R : Nat → Nat → Bool)
    (h : ∀ i j, RE i j = some (R i j)) (nodes : List Node) (c : Nat) :
    ∀ f L, searchParentsE RE nodes c f L = some (searchParents R nodes c f L) := by
  intro f
  induction f with
  | zero => intro L; rfl
  | succ f ih =>
    intro L
    simp only [searchParentsE, searchParents]
    apply foldlM_eq_some
    intro parents r
    rw [h r c]
    cases hr : R r c with
    | false => rfl
    | true =>
      simp only [ih]
      rfl

theorem stepE_eq (RE : Nat → Nat → Option Bool) (R K : Nat → Nat → Bool)
    (h : ∀ i j, RE i j = some (R i j)) (env : Env) (st : State) :
    stepE RE K env st = some (step R K env st) := by
  unfold stepE step
  by_cases he : (searchParents R st.nodes st.nodes.length (st.nodes.length + 1) st.roots).isEmpty = true
  · simp [searchParentsE_eq RE R h, he]
    exact List.isEmpty_iff.mp he
  · simp [searchParentsE_eq RE R h, he]
    exact fun e => he (List.isEmpty_iff.mpr e)

theorem buildIdxE_eq (RE : Nat → Nat → Option Bool) (R K : Nat → Nat → Bool)
    (h : ∀ i j, RE i j = some (R i j)) (env : Env) :
    ∀ n, buildIdxE RE K env n = some (buildIdx R K env n) := by
  intro n
  induction n with
  | zero => rfl
  | succ n ih =>
    simp only [buildIdxE, buildIdx, ih]
    exact stepE_eq RE R K h env _

/-- **C07.buildTreeE_eq** — if `is_subgroup` does not raise on any two distinct entries of the
    list, the run with the assertion is the pure run. -/
theorem buildTreeE_eq {α} (subE : α → α → Option Bool) (c : Cfg α) (env : Env) (l : List α)
    (hnd : l.Nodup)
    (h : ∀ a, a ∈ l → ∀ b, b ∈ l → a ≠ b → subE a b = some (c.sub a b)) :
    buildTreeE subE c.klt env l = some (buildTree c env l) := by
  have hperm := sortByKey_perm c.klt l
  have hnd' : (sortByKey c.klt l).Nodup := hperm.nodup_iff.mpr hnd
  have hrel : ∀ i j, relOnE subE (sortByKey c.klt l) i j = some (relOn c.sub (sortByKey c.klt l) i j) := by
    intro i j
    unfold relOnE relOn
    by_cases hij : i = j
    · simp [hij]
    · have hne : (i != j) = true := by simpa using hij
      have hne' : (i == j) = false := by simpa using hij
      simp only [hne', hne, Bool.true_and]
      cases hi : (sortByKey c.klt l)[i]? with
      | none => simp
      | some a =>
        cases hj : (sortByKey c.klt l)[j]? with
        | none => simp
        | some b =>
          simp only
          have hab : a ≠ b := by
            intro e
            subst e
            have hlt : i < (sortByKey c.klt l).length := (List.getElem?_eq_some_iff.mp hi).1
            exact hij ((List.getElem?_inj hlt hnd').mp (hi.trans hj.symm))
          simp
          exact h a (hperm.mem_iff.mp (List.mem_of_getElem? hi)) b (hperm.mem_iff.mp (List.mem_of_getElem? hj)) hab
  unfold buildTreeE buildTree
  simp only [buildIdxE_eq _ _ _ hrel]
  rfl

/-- `is_subgroup` with the assertion agrees with the Boolean of the theorems unless both
    directions match -/
theorem isSubgroupE_eq (m : Perm.Mapper) (a b : FGConfig)
    (h : ¬ (Sub.mapSubgraphToGraph b.pattern a.pattern m = true ∧ Sub.mapSubgraphToGraph a.pattern b.pattern m = true)) :
    isSubgroupE m a b = some (isSubgroup m a b) := by
  unfold isSubgroupE isSubgroup
  cases h1 : Sub.mapSubgraphToGraph b.pattern a.pattern m <;>
    cases h2 : Sub.mapSubgraphToGraph a.pattern b.pattern m <;> simp [h1, h2] at h ⊢

/-- the chemistry instance: on a list of distinct configs no two of which match in both
    directions, `build_config_tree_from_list` (with its assertion) is the pure algorithm of
    `C07.hasse` over the matcher's `is_subgroup` and the key `order_id` -/
theorem buildFG_eq (m : Perm.Mapper) (env : Env) (l : List FGConfig) (hnd : l.Nodup)
    (h : ∀ a, a ∈ l → ∀ b, b ∈ l → a ≠ b →
      ¬ (Sub.mapSubgraphToGraph b.pattern a.pattern m = true ∧ Sub.mapSubgraphToGraph a.pattern b.pattern m = true)) :
    buildFG m env l = some (buildTree (fgCfg m) env l) := by
  exact buildTreeE_eq (isSubgroupE m) (fgCfg m) env l hnd
    (fun a ha b hb hab => isSubgroupE_eq m a b (h a ha b hb hab))

end C07
