import FGVerif.Proofs.C07DefaultDefs
/-! C07 — kernel-checked correspondence of the matcher model with the code on rows 24… of the default table -/
namespace C07
open Gen.C07
theorem default_emb_rows3 : embRows (configs.drop (3 * chunk)) = embImpl.drop (3 * chunk) := by
  decide +kernel
end C07
