import FGVerif.Proofs.C03
/-!
  The oracle `existsEmbedding` (Model/C03Spec.lean) is *exact* on well-formed graphs:

  * `existsEmbedding_sound`     (Model/C03Spec.lean) a positive answer exhibits an embedding;
  * `existsEmbedding_complete`  (here) if an anchored embedding exists, the pruned backtracking
                                search finds one and `isEmbedding` accepts it;
  * `existsEmbedding_iff`       both together.

  Hence the clause `c03_missed` that the driver evaluates on implementation outputs
  ("`existsEmbedding` but flag = False") is exactly the negation of C03 on that input.
-/
namespace C03
open Perm Sub

/-! ### breadth-first closure `reachList` -/

def stepAdd (avoid : List Int) (acc : List Int) (x : Int) : List Int :=
  if avoid.contains x then acc else addSet x acc

def addNbrs (g : Graph) (avoid : List Int) (acc : List Int) (q : Int) : List Int :=
  (g.neighbors q).foldl (stepAdd avoid) acc

theorem grow_eq (g : Graph) (avoid seen : List Int) : grow g avoid seen = seen.foldl (addNbrs g avoid) seen := rfl

theorem addSet_prefix (x : Int) (s : List Int) : s <+: addSet x s := by
  unfold addSet; split
  · exact List.prefix_refl _
  · exact List.prefix_append _ _

theorem addSet_nodup (x : Int) (s : List Int) (h : s.Nodup) : (addSet x s).Nodup := by
  unfold addSet; split
  · exact h
  · rename_i hc
    have : x ∉ s := by simpa using hc
    rw [List.nodup_append]
    exact ⟨h, by simp, by intro a ha b hb; simp at hb; subst hb; intro e; exact this (e ▸ ha)⟩

theorem stepAdd_prefix (avoid acc : List Int) (x : Int) : acc <+: stepAdd avoid acc x := by
  unfold stepAdd; split
  · exact List.prefix_refl _
  · exact addSet_prefix _ _

theorem stepAdd_nodup (avoid acc : List Int) (x : Int) (h : acc.Nodup) : (stepAdd avoid acc x).Nodup := by
  unfold stepAdd; split
  · exact h
  · exact addSet_nodup _ _ h

theorem mem_stepAdd (avoid acc : List Int) (x y : Int) :
    y ∈ stepAdd avoid acc x ↔ y ∈ acc ∨ (y = x ∧ x ∉ avoid) := by
  unfold stepAdd; split
  · rename_i hc
    have : x ∈ avoid := by simpa using hc
    constructor
    · exact Or.inl
    · rintro (h | ⟨_, h⟩)
      · exact h
      · exact absurd this h
  · rename_i hc
    have : x ∉ avoid := by simpa using hc
    rw [mem_addSet]
    constructor
    · rintro (h | h)
      · exact Or.inr ⟨h, this⟩
      · exact Or.inl h
    · rintro (h | ⟨h, _⟩)
      · exact Or.inr h
      · exact Or.inl h

theorem foldl_stepAdd (avoid : List Int) : ∀ (xs acc : List Int),
    acc <+: xs.foldl (stepAdd avoid) acc ∧ (acc.Nodup → (xs.foldl (stepAdd avoid) acc).Nodup) ∧
    ∀ y, y ∈ xs.foldl (stepAdd avoid) acc ↔ y ∈ acc ∨ (y ∈ xs ∧ y ∉ avoid)
  | [], acc => by simp
  | x :: xs, acc => by
    obtain ⟨h1, h2, h3⟩ := foldl_stepAdd avoid xs (stepAdd avoid acc x)
    simp only [List.foldl_cons]
    refine ⟨(stepAdd_prefix avoid acc x).trans h1, fun h => h2 (stepAdd_nodup _ _ _ h), ?_⟩
    intro y
    rw [h3 y, mem_stepAdd]
    constructor
    · rintro ((h | ⟨rfl, h⟩) | ⟨h, h'⟩)
      · exact Or.inl h
      · exact Or.inr ⟨by simp, h⟩
      · exact Or.inr ⟨List.mem_cons_of_mem _ h, h'⟩
    · rintro (h | ⟨h, h'⟩)
      · exact Or.inl (Or.inl h)
      · rcases List.mem_cons.mp h with rfl | h
        · exact Or.inl (Or.inr ⟨rfl, h'⟩)
        · exact Or.inr ⟨h, h'⟩

theorem foldl_addNbrs (g : Graph) (avoid : List Int) : ∀ (l acc : List Int),
    acc <+: l.foldl (addNbrs g avoid) acc ∧ (acc.Nodup → (l.foldl (addNbrs g avoid) acc).Nodup) ∧
    ∀ y, y ∈ l.foldl (addNbrs g avoid) acc ↔ y ∈ acc ∨ ∃ q ∈ l, y ∈ g.neighbors q ∧ y ∉ avoid
  | [], acc => by simp
  | q :: l, acc => by
    obtain ⟨h1, h2, h3⟩ := foldl_addNbrs g avoid l (addNbrs g avoid acc q)
    obtain ⟨k1, k2, k3⟩ := foldl_stepAdd avoid (g.neighbors q) acc
    simp only [List.foldl_cons]
    refine ⟨k1.trans h1, fun h => h2 (k2 h), ?_⟩
    intro y
    rw [h3 y]
    unfold addNbrs
    rw [k3 y]
    constructor
    · rintro ((h | h) | ⟨q', hq', h⟩)
      · exact Or.inl h
      · exact Or.inr ⟨q, by simp, h⟩
      · exact Or.inr ⟨q', List.mem_cons_of_mem _ hq', h⟩
    · rintro (h | ⟨q', hq', h⟩)
      · exact Or.inl (Or.inl h)
      · rcases List.mem_cons.mp hq' with rfl | hq'
        · exact Or.inl (Or.inr h)
        · exact Or.inr ⟨q', hq', h⟩

theorem grow_spec (g : Graph) (avoid seen : List Int) :
    seen <+: grow g avoid seen ∧ (seen.Nodup → (grow g avoid seen).Nodup) ∧
    ∀ y, y ∈ grow g avoid seen ↔ y ∈ seen ∨ ∃ q ∈ seen, y ∈ g.neighbors q ∧ y ∉ avoid := by
  rw [grow_eq]; exact foldl_addNbrs g avoid seen seen

theorem growN_fix (g : Graph) (avoid : List Int) : ∀ (n : Nat) (s : List Int), grow g avoid s = s → growN g avoid n s = s
  | 0, _, _ => rfl
  | n + 1, s, h => by simp only [growN, h]; exact growN_fix g avoid n s h

theorem growN_prefix (g : Graph) (avoid : List Int) : ∀ (n : Nat) (s : List Int), s <+: growN g avoid n s
  | 0, s => List.prefix_refl s
  | n + 1, s => (grow_spec g avoid s).1.trans (growN_prefix g avoid n _)

/-- after enough rounds the closure is a fixed point of `grow` -/
theorem growN_closed (g : Graph) (avoid : List Int) (hg : NbrsAreNodes g) : ∀ (n : Nat) (s : List Int),
    s.Nodup → (∀ x ∈ s, x ∈ g.nodeIds) → g.nodeIds.length ≤ s.length + n →
    grow g avoid (growN g avoid n s) = growN g avoid n s := by
  intro n
  induction n with
  | zero =>
    intro s hnd hsub hlen
    obtain ⟨hp, hn, hm⟩ := grow_spec g avoid s
    have hsub' : ∀ x ∈ grow g avoid s, x ∈ g.nodeIds := by
      intro x hx
      rcases (hm x).mp hx with h | ⟨q, _, hq, _⟩
      · exact hsub x h
      · exact hg _ _ hq
    have h1 := List.Nodup.length_le_of_subset (hn hnd) (fun x hx => hsub' x hx)
    have h2 := hp.length_le
    exact (hp.eq_of_length (by omega)).symm
  | succ n ih =>
    intro s hnd hsub hlen
    obtain ⟨hp, hn, hm⟩ := grow_spec g avoid s
    by_cases hfix : grow g avoid s = s
    · rw [growN_fix g avoid (n + 1) s hfix]; exact hfix
    · simp only [growN]
      apply ih (grow g avoid s) (hn hnd)
      · intro x hx
        rcases (hm x).mp hx with h | ⟨q, _, hq, _⟩
        · exact hsub x h
        · exact hg _ _ hq
      · have h2 := hp.length_le
        have : s.length ≠ (grow g avoid s).length := fun e => hfix (hp.eq_of_length e).symm
        omega

/-- completeness of the breadth-first closure -/
theorem reachList_complete (g : Graph) (avoid : List Int) (hg : NbrsAreNodes g) (start : Int)
    (hs : start ∈ g.nodeIds) {a x : Int} (hr : Reach g avoid a x) (ha : a ∈ reachList g avoid start) :
    x ∈ reachList g avoid start := by
  have hclosed : grow g avoid (reachList g avoid start) = reachList g avoid start := by
    unfold reachList
    apply growN_closed g avoid hg
    · simp
    · simpa using hs
    · simp [Graph.numberOfNodes, Graph.nodeIds]
  induction hr with
  | refl _ => exact ha
  | step _ hab hbc ih =>
    apply ih
    rw [← hclosed, (grow_spec g avoid _).2.2]
    exact Or.inr ⟨_, ha, hab, hbc.head_not_avoid⟩

theorem growN_sound (g : Graph) (avoid : List Int) (start : Int) : ∀ (n : Nat) (s : List Int),
    (∀ x ∈ s, Reach g avoid start x) → ∀ y ∈ growN g avoid n s, Reach g avoid start y
  | 0, _, h, y, hy => h y hy
  | n + 1, s, h, y, hy => by
    simp only [growN] at hy
    refine growN_sound g avoid start n (grow g avoid s) ?_ y hy
    intro x hx
    rcases ((grow_spec g avoid s).2.2 x).mp hx with h' | ⟨q, hq, hxq, hxa⟩
    · exact h x h'
    · exact (h q hq).snoc hxq hxa

theorem reachList_sound (g : Graph) (avoid : List Int) (start : Int) (hs : start ∉ avoid) :
    ∀ y ∈ reachList g avoid start, Reach g avoid start y :=
  growN_sound g avoid start _ [start] (by intro x hx; simp at hx; subst hx; exact .refl hs)

theorem reachList_nodup (g : Graph) (avoid : List Int) (start : Int) : (reachList g avoid start).Nodup := by
  unfold reachList
  generalize g.numberOfNodes = n
  have : ∀ (n : Nat) (s : List Int), s.Nodup → (growN g avoid n s).Nodup := by
    intro n
    induction n with
    | zero => intro s h; exact h
    | succ n ih => intro s h; exact ih _ ((grow_spec g avoid s).2.1 h)
  exact this n [start] (by simp)

theorem start_mem_reachList (g : Graph) (avoid : List Int) (start : Int) : start ∈ reachList g avoid start :=
  (growN_prefix g avoid _ [start]).subset (by simp)

/-! ### the backtracking search -/

/-- a partial assignment that is consistent so far -/
structure Good (m : Mapper) (P H : Graph) (asg : List (Int × Int)) : Prop where
  nodes : ∀ x ∈ asg, x.1 ∈ H.nodeIds
  admitted : ∀ x ∈ asg, admits m (sym P x.2) (sym H x.1) = true
  functional : ∀ x ∈ asg, ∀ y ∈ asg, x.2 = y.2 → x.1 = y.1
  injective : ∀ x ∈ asg, ∀ y ∈ asg, x.1 = y.1 → x.2 = y.2
  bond : ∀ x ∈ asg, ∀ y ∈ asg, y.2 ∈ P.neighbors x.2 →
    y.1 ∈ H.neighbors x.1 ∧ H.bond? x.1 y.1 = P.bond? x.2 y.2

theorem mem_candidates (m : Mapper) (P H : Graph) (asg : List (Int × Int)) (q h : Int)
    (hc : h ∈ candidates m P H asg q) :
    (h ∈ H.nodeIds ∨ ∃ u, h ∈ H.neighbors u) ∧ (∀ x ∈ asg, x.1 ≠ h) ∧ admits m (sym P q) (sym H h) = true ∧
    ∀ x ∈ asg, x.2 ∈ P.neighbors q → x.1 ∈ H.neighbors h ∧ H.bond? h x.1 = P.bond? q x.2 := by
  unfold candidates at hc
  simp only [List.mem_filter, Bool.and_eq_true, Bool.not_eq_eq_eq_not, Bool.not_true,
    List.any_eq_false, beq_iff_eq, List.all_eq_true, List.contains_eq_mem, decide_eq_true_eq] at hc
  obtain ⟨hbase, ⟨hun, hadm⟩, hall⟩ := hc
  refine ⟨?_, fun x hx => hun x hx, hadm, fun x hx hxq => hall x ⟨hx, hxq⟩⟩
  split at hbase
  · exact Or.inl hbase
  · exact Or.inr ⟨_, hbase⟩

theorem good_cons (m : Mapper) (P H : Graph) (hH : WF H) (hP : WF P) (asg : List (Int × Int)) (q h : Int)
    (hg : Good m P H asg) (hq : ∀ x ∈ asg, x.2 ≠ q) (hc : h ∈ candidates m P H asg q) :
    Good m P H ((h, q) :: asg) := by
  obtain ⟨hnode, hun, hadm, hadj⟩ := mem_candidates m P H asg q h hc
  have hnode' : h ∈ H.nodeIds := by
    rcases hnode with h1 | ⟨u, h1⟩
    · exact h1
    · exact (hH.nbrNode u h h1).2
  refine ⟨?_, ?_, ?_, ?_, ?_⟩
  · intro x hx
    rcases List.mem_cons.mp hx with rfl | hx
    · exact hnode'
    · exact hg.nodes x hx
  · intro x hx
    rcases List.mem_cons.mp hx with rfl | hx
    · exact hadm
    · exact hg.admitted x hx
  · intro x hx y hy hxy
    rcases List.mem_cons.mp hx with rfl | hx <;> rcases List.mem_cons.mp hy with rfl | hy
    · rfl
    · exact absurd hxy.symm (hq y hy)
    · exact absurd hxy (hq x hx)
    · exact hg.functional x hx y hy hxy
  · intro x hx y hy hxy
    rcases List.mem_cons.mp hx with rfl | hx <;> rcases List.mem_cons.mp hy with rfl | hy
    · rfl
    · exact absurd hxy.symm (hun y hy)
    · exact absurd hxy (hun x hx)
    · exact hg.injective x hx y hy hxy
  · intro x hx y hy hyx
    rcases List.mem_cons.mp hx with rfl | hx <;> rcases List.mem_cons.mp hy with rfl | hy
    · exact absurd hyx (hP.noLoop _)
    · exact hadj y hy hyx
    · have hxq : x.2 ∈ P.neighbors q := (hP.symm x.2 q hyx).1
      obtain ⟨h1, h2⟩ := hadj x hx hxq
      have hs := hH.symm h x.1 h1
      have hp := hP.symm x.2 q hyx
      exact ⟨hs.1, by rw [hs.2, h2, hp.2]⟩
    · exact hg.bond x hx y hy hyx

theorem search_sound (m : Mapper) (P H : Graph) (hH : WF H) (hP : WF P) :
    ∀ (rest : List Int) (asg M : List (Int × Int)), search m P H rest asg = some M →
      Good m P H asg → rest.Nodup → (∀ x ∈ asg, x.2 ∉ rest) →
      Good m P H M ∧ (∀ x ∈ asg, x ∈ M) ∧ (∀ q ∈ rest, ∃ x ∈ M, x.2 = q) ∧
      (∀ x ∈ M, x ∈ asg ∨ x.2 ∈ rest)
  | [], asg, M, h, hg, _, _ => by
    simp only [search, Option.some.injEq] at h
    subst h
    exact ⟨hg, fun x hx => hx, by simp, fun x hx => Or.inl hx⟩
  | q :: rest, asg, M, h, hg, hnd, hdis => by
    simp only [search] at h
    obtain ⟨c, hc, hs⟩ := List.exists_of_findSome?_eq_some h
    rw [List.nodup_cons] at hnd
    have hq : ∀ x ∈ asg, x.2 ≠ q := fun x hx e => hdis x hx (by simp [e])
    have hg' := good_cons m P H hH hP asg q c hg hq hc
    obtain ⟨h1, h2, h3, h4⟩ := search_sound m P H hH hP rest _ M hs hg' hnd.2 (by
      intro x hx
      rcases List.mem_cons.mp hx with rfl | hx
      · exact hnd.1
      · exact fun hm => hdis x hx (List.mem_cons_of_mem _ hm))
    refine ⟨h1, fun x hx => h2 x (List.mem_cons_of_mem _ hx), ?_, ?_⟩
    · intro q' hq'
      rcases List.mem_cons.mp hq' with rfl | hq'
      · exact ⟨(c, q'), h2 _ (by simp), rfl⟩
      · exact h3 q' hq'
    · intro x hx
      rcases h4 x hx with h | h
      · rcases List.mem_cons.mp h with rfl | h
        · exact Or.inr (by simp)
        · exact Or.inl h
      · exact Or.inr (List.mem_cons_of_mem _ h)

/-- if an embedding `f` of `D` extends the partial assignment, the search does not fail -/
theorem search_complete (m : Mapper) (P H : Graph) (hP : WF P) (D : Int → Prop) (f : Int → Int)
    (hE : IsEmbeddingOn m P H D f) :
    ∀ (rest : List Int) (asg : List (Int × Int)), (∀ q ∈ rest, D q) → (∀ x ∈ asg, D x.2 ∧ x.1 = f x.2) →
      rest.Nodup → (∀ x ∈ asg, x.2 ∉ rest) → (search m P H rest asg).isSome = true
  | [], _, _, _, _, _ => by simp [search]
  | q :: rest, asg, hD, hasg, hnd, hdis => by
    simp only [search]
    rw [List.nodup_cons] at hnd
    have hDq : D q := hD q (by simp)
    have hcand : f q ∈ candidates m P H asg q := by
      unfold candidates
      simp only [List.mem_filter, Bool.and_eq_true, Bool.not_eq_eq_eq_not, Bool.not_true,
        List.any_eq_false, beq_iff_eq, List.all_eq_true, List.contains_eq_mem, decide_eq_true_eq]
      refine ⟨?_, ⟨?_, hE.admitted q hDq⟩, ?_⟩
      · split
        · exact hE.range q hDq
        · rename_i x xs hx
          have hxm : x ∈ List.filter (fun x => decide (x.snd ∈ P.neighbors q)) asg := by rw [hx]; simp
          rw [List.mem_filter] at hxm
          have hxq : x.2 ∈ P.neighbors q := by simpa using hxm.2
          obtain ⟨hDx, hfx⟩ := hasg x hxm.1
          have := (hE.bond x.2 q hDx (hP.symm q x.2 hxq).1).1
          rw [hfx]; exact this
      · intro x hx e
        obtain ⟨hDx, hfx⟩ := hasg x hx
        have : x.2 = q := hE.inj x.2 q hDx hDq (by rw [← hfx, e])
        exact hdis x hx (by simp [this])
      · intro x hx
        obtain ⟨_, hfx⟩ := hasg x hx.1
        have := hE.bond q x.2 hDq hx.2
        rw [hfx]; exact this
    have hrec := search_complete m P H hP D f hE rest ((f q, q) :: asg)
      (fun q' hq' => hD q' (List.mem_cons_of_mem _ hq'))
      (by
        intro x hx
        rcases List.mem_cons.mp hx with rfl | hx
        · exact ⟨hDq, rfl⟩
        · exact hasg x hx)
      hnd.2
      (by
        intro x hx
        rcases List.mem_cons.mp hx with rfl | hx
        · exact hnd.1
        · exact fun hm => hdis x hx (List.mem_cons_of_mem _ hm))
    cases hfs : (candidates m P H asg q).findSome? fun h => search m P H rest ((h, q) :: asg) with
    | some _ => rfl
    | none =>
      have := List.findSome?_eq_none_iff.mp hfs _ hcand
      rw [this] at hrec
      simp at hrec

theorem hasNode_iff (g : Graph) (n : Int) : g.hasNode n = true ↔ n ∈ g.nodeIds := by
  simp [Graph.hasNode, Graph.nodeIds, List.any_eq_true]

/-- **completeness of the oracle** on well-formed graphs: if an embedding of the anchor's
    component with the anchor pair fixed exists, `existsEmbedding` answers `true`. -/
theorem existsEmbedding_complete (m : Mapper) (P H : Graph) (pa a : Int) (hH : WF H) (hP : WF P)
    (hpa : pa ∈ P.nodeIds) (hex : ∃ f, IsAnchoredEmbedding m P H pa a f) :
    existsEmbedding m P H pa a = true := by
  obtain ⟨f, hE, hfa⟩ := hex
  have hPn : NbrsAreNodes P := fun u v h => (hP.nbrNode u v h).2
  have hroot : Reach P [] pa pa := .refl (by simp)
  have hadm : admits m (sym P pa) (sym H a) = true := hfa ▸ hE.admitted pa hroot
  have ha : a ∈ H.nodeIds := hfa ▸ hE.range pa hroot
  let order := (component P pa).filter (· != pa)
  have hordnd : order.Nodup := (reachList_nodup P [] pa).filter _
  have hordD : ∀ q ∈ order, Reach P [] pa q := by
    intro q hq
    exact reachList_sound P [] pa (by simp) q (List.mem_filter.mp hq).1
  have hordne : ∀ q ∈ order, q ≠ pa := by
    intro q hq
    simpa using (List.mem_filter.mp hq).2
  have hsome := search_complete m P H hP _ f hE order [(a, pa)] hordD
    (by intro x hx; simp at hx; subst hx; exact ⟨hroot, hfa.symm⟩) hordnd
    (by intro x hx; simp at hx; subst hx; exact fun hm => hordne pa hm rfl)
  unfold existsEmbedding findEmbedding
  have hcond : (admits m (sym P pa) (sym H a) && H.hasNode a && P.hasNode pa) = true := by
    simp [hadm, (hasNode_iff H a).mpr ha, (hasNode_iff P pa).mpr hpa]
  rw [if_pos hcond]
  cases hs : search m P H order [(a, pa)] with
  | none => rw [hs] at hsome; simp at hsome
  | some M =>
    show isEmbedding m P H pa a M = true
    have hgood0 : Good m P H [(a, pa)] := by
      refine ⟨?_, ?_, ?_, ?_, ?_⟩
      · intro x hx; simp at hx; subst hx; exact ha
      · intro x hx; simp at hx; subst hx; exact hadm
      · intro x hx y hy _; simp at hx hy; subst hx hy; rfl
      · intro x hx y hy _; simp at hx hy; subst hx hy; rfl
      · intro x hx y hy hyx; simp at hx hy; subst hx hy; exact absurd hyx (hP.noLoop _)
    obtain ⟨hg, hsub, hall, honly⟩ := search_sound m P H hH hP order [(a, pa)] M hs hgood0 hordnd
      (by intro x hx; simp at hx; subst hx; exact fun hm => hordne pa hm rfl)
    have hanchor : (a, pa) ∈ M := hsub _ (by simp)
    have hcomp : ∀ x ∈ M, x.2 ∈ component P pa := by
      intro x hx
      rcases honly x hx with h | h
      · simp at h; subst h; exact start_mem_reachList P [] pa
      · exact (List.mem_filter.mp h).1
    rw [isEmbedding_iff]
    refine ⟨hanchor, ?_, hg.admitted, hg.functional, hg.injective, ?_⟩
    · intro x hx
      exact ⟨hg.nodes x hx, (reachList_sound P [] pa (by simp) _ (hcomp x hx)).mem_nodes hPn hpa⟩
    · intro x hx q hq
      have hqc : q ∈ component P pa :=
        reachList_complete P [] hPn pa hpa (.step (by simp) hq (.refl (by simp))) (hcomp x hx)
      obtain ⟨y, hy, hyq⟩ : ∃ y ∈ M, y.2 = q := by
        by_cases hqa : q = pa
        · exact ⟨(a, pa), hanchor, hqa.symm⟩
        · exact hall q (List.mem_filter.mpr ⟨hqc, by simpa using hqa⟩)
      obtain ⟨h1, h2⟩ := hg.bond x hx y hy (hyq ▸ hq)
      exact ⟨y, hy, hyq, h1, hyq ▸ h2⟩

/-- the oracle is exact on well-formed graphs -/
theorem existsEmbedding_iff (m : Mapper) (P H : Graph) (pa a : Int) (hH : WF H) (hP : WF P)
    (hpa : pa ∈ P.nodeIds) :
    existsEmbedding m P H pa a = true ↔ ∃ f, IsAnchoredEmbedding m P H pa a f :=
  ⟨existsEmbedding_sound m P H pa a, existsEmbedding_complete m P H pa a hH hP hpa⟩

/-- test (non-vacuity): on the cyclic host `CC1CC1O` the oracle's answer for `RCO` at anchor pair
    (3, 1) is, by `existsEmbedding_iff`, the existence of an anchored embedding -/
example : ∃ f, IsAnchoredEmbedding exMapper exPattern exHost 1 3 f :=
  (existsEmbedding_iff exMapper exPattern exHost 1 3 (wfB_sound _ (by decide)) (wfB_sound _ (by decide))
    (by decide)).mp (by decide)

/-- test: and there is none with the oxygen on the ring carbon 2 -/
example : ¬ ∃ f, IsAnchoredEmbedding exMapper exPattern exHost 2 2 f := fun h =>
  absurd ((existsEmbedding_iff exMapper exPattern exHost 2 2 (wfB_sound _ (by decide)) (wfB_sound _ (by decide))
    (by decide)).mpr h) (by decide)

end C03
