import FGVerif.Proofs.C06Full
/-!
  C06 — the end-to-end statement WITHOUT the assertion-freeness hypothesis: for configurations with
  pairwise distinct pattern strings the outcome of `FGQuery(config=cfgs).get(g)` — the answer OR the
  AssertionError of `is_subgroup` ("matches in both directions") — is the same for every
  set-iteration order, every permutation of the configuration list and after every history.
  (Which pairs `search_parents` compares, hence whether the assertion fires, is determined by the
  children lists alone, and those do not depend on the iteration order of the `parents` set.)
  Core Lean only.

  * `C06.view_env_independentE`   `buildTreeE` (the builder with its assertion): the `View` of the
                                  result, or the failure, does not depend on `Env`;
  * `C06.query_end_to_end_total`  the end-to-end property with the single hypothesis "pattern strings
                                  pairwise distinct".
-/
namespace C06
open C07

/-- `searchParentsE` reads the nodes only through their children lists -/
theorem sp_congrE (RE : Nat → Nat → Option Bool) (n1 n2 : List Node) (c : Nat) (h : ∀ i, ch n1 i = ch n2 i) :
    ∀ f L, searchParentsE RE n1 c f L = searchParentsE RE n2 c f L := by
  intro f
  induction f with
  | zero => intro L; rfl
  | succ f ih =>
    intro L
    simp only [searchParentsE, h, ih]

theorem foldlM_inv {β γ} (f : β → γ → Option β) (P : β → Prop)
    (hf : ∀ b x b', P b → f b x = some b' → P b') :
    ∀ (L : List γ) (b b' : β), P b → L.foldlM f b = some b' → P b' := by
  intro L
  induction L with
  | nil => intro b b' hb h; simp only [List.foldlM_nil, Option.pure_def, Option.some.injEq] at h; exact h ▸ hb
  | cons x xs ih =>
    intro b b' hb h
    simp only [List.foldlM_cons, Option.bind_eq_bind] at h
    cases hfx : f b x with
    | none => rw [hfx] at h; simp at h
    | some b1 =>
      rw [hfx] at h
      exact ih b1 b' (hf b x b1 hb hfx) h

/-- the set of parents collected by `search_parents` has no duplicates -/
theorem nodup_spE (RE : Nat → Nat → Option Bool) (nodes : List Node) (c : Nat) :
    ∀ (fuel : Nat) (L ps : List Nat), searchParentsE RE nodes c fuel L = some ps → ps.Nodup := by
  intro fuel
  cases fuel with
  | zero => intro L ps h; simp only [searchParentsE, Option.some.injEq] at h; subst h; exact List.nodup_nil
  | succ f =>
    intro L ps h
    simp only [searchParentsE] at h
    refine foldlM_inv _ List.Nodup ?_ L [] ps List.nodup_nil h
    intro b x b' hb hstep
    cases hr : RE x c with
    | none => simp [hr] at hstep
    | some v =>
      cases v with
      | false => simp [hr] at hstep; exact hstep ▸ hb
      | true =>
        cases hs : searchParentsE RE nodes c f (ch nodes x) with
        | none => simp [hr, hs] at hstep
        | some qs =>
          simp [hr, hs] at hstep
          subst hstep
          split
          · exact nodup_addSet hb
          · exact nodup_unionSet hb

/-- what `build_config_tree_from_list` does with the parents found for the next config -/
def finishStep (K : Nat → Nat → Bool) (env : Env) (st : State) (ps : List Nat) : State :=
  let k := st.nodes.length
  let nodes := st.nodes ++ [Node.mk [] []]
  if ps.isEmpty then { nodes := nodes, roots := st.roots ++ [k] }
  else { nodes := (env.order k ps).foldl (fun ns p => addChild K ns p k) nodes, roots := st.roots }

theorem stepE_eq_map (RE : Nat → Nat → Option Bool) (K : Nat → Nat → Bool) (env : Env) (st : State) :
    stepE RE K env st =
      (searchParentsE RE st.nodes st.nodes.length (st.nodes.length + 1) st.roots).map (finishStep K env st) := by
  unfold stepE finishStep
  simp only [Option.bind_eq_bind, Option.pure_def]
  cases hsp : searchParentsE RE st.nodes st.nodes.length (st.nodes.length + 1) st.roots with
  | none => rfl
  | some ps => simp only [Option.bind_some, Option.map_some]; split <;> rfl

theorem viewRel_finishStep (K : Nat → Nat → Bool) (env₁ env₂ : Env) (h₁ : env₁.Valid) (h₂ : env₂.Valid)
    (s1 s2 : State) (h : ViewRel s1 s2) (ps : List Nat) (hnd : ps.Nodup) :
    ViewRel (finishStep K env₁ s1 ps) (finishStep K env₂ s2 ps) := by
  unfold finishStep
  simp only
  have hbase : ∀ i, ch (s1.nodes ++ [Node.mk [] []]) i = ch (s2.nodes ++ [Node.mk [] []]) i := by
    intro i; rw [ch_append_new, ch_append_new]; exact h.chs i
  by_cases he : ps.isEmpty = true
  · simp only [he, if_true]
    exact ⟨by rw [h.roots, h.len], by simp [h.len], hbase⟩
  · have he' : ps.isEmpty = false := by simpa using he
    simp only [he', Bool.false_eq_true, if_false]
    rw [h.len]
    have hp1 := h₁ s2.nodes.length ps
    have hp2 := h₂ s2.nodes.length ps
    refine ⟨h.roots, ?_, ?_⟩
    · show (addChildren K _ _ _).length = (addChildren K _ _ _).length
      rw [length_addChildren, length_addChildren]; simp [h.len]
    · intro i
      show ch (addChildren K _ _ _) i = ch (addChildren K _ _ _) i
      rw [ch_addChildren_exact K _ _ _ (hp1.nodup_iff.mpr hnd), ch_addChildren_exact K _ _ _ (hp2.nodup_iff.mpr hnd),
        hbase i]
      simp only [List.length_append, h.len, hp1.mem_iff, hp2.mem_iff]

/-- both runs fail, or both succeed with states that look the same to the query -/
def ViewRelO : Option State → Option State → Prop
  | some a, some b => ViewRel a b
  | none, none => True
  | _, _ => False

theorem viewRel_stepE (RE : Nat → Nat → Option Bool) (K : Nat → Nat → Bool) (env₁ env₂ : Env)
    (h₁ : env₁.Valid) (h₂ : env₂.Valid) (s1 s2 : State) (h : ViewRel s1 s2) :
    ViewRelO (stepE RE K env₁ s1) (stepE RE K env₂ s2) := by
  rw [stepE_eq_map, stepE_eq_map, ← h.len, ← h.roots, ← sp_congrE RE s1.nodes s2.nodes s1.nodes.length h.chs]
  cases hs : searchParentsE RE s1.nodes s1.nodes.length (s1.nodes.length + 1) s1.roots with
  | none => exact True.intro
  | some ps => exact viewRel_finishStep K env₁ env₂ h₁ h₂ s1 s2 h ps (nodup_spE RE _ _ _ _ ps hs)

theorem viewRel_buildIdxE (RE : Nat → Nat → Option Bool) (K : Nat → Nat → Bool) (env₁ env₂ : Env)
    (h₁ : env₁.Valid) (h₂ : env₂.Valid) : ∀ n, ViewRelO (buildIdxE RE K env₁ n) (buildIdxE RE K env₂ n) := by
  intro n
  induction n with
  | zero => exact ⟨rfl, rfl, fun _ => rfl⟩
  | succ n ih =>
    simp only [buildIdxE]
    cases e1 : buildIdxE RE K env₁ n with
    | none =>
      cases e2 : buildIdxE RE K env₂ n with
      | none => exact True.intro
      | some b => rw [e1, e2] at ih; exact ih.elim
    | some a =>
      cases e2 : buildIdxE RE K env₂ n with
      | none => rw [e1, e2] at ih; exact ih.elim
      | some b =>
        rw [e1, e2] at ih
        exact viewRel_stepE RE K env₁ env₂ h₁ h₂ a b ih

/-- **C06.view_env_independentE** — for the builder WITH its assertion: whether it raises, and if
    not the tree as the query reads it, does not depend on the set-iteration order. -/
theorem view_env_independentE {α} (subE : α → α → Option Bool) (klt : α → α → Bool) (env₁ env₂ : Env)
    (h₁ : env₁.Valid) (h₂ : env₂.Valid) (l : List α) :
    (buildTreeE subE klt env₁ l).map view = (buildTreeE subE klt env₂ l).map view := by
  have h := viewRel_buildIdxE (relOnE subE (sortByKey klt l)) (relOn klt (sortByKey klt l)) env₁ env₂ h₁ h₂
    (sortByKey klt l).length
  unfold buildTreeE
  simp only [Option.bind_eq_bind, Option.pure_def]
  cases e1 : buildIdxE (relOnE subE (sortByKey klt l)) (relOn klt (sortByKey klt l)) env₁ (sortByKey klt l).length with
  | none =>
    cases e2 : buildIdxE (relOnE subE (sortByKey klt l)) (relOn klt (sortByKey klt l)) env₂ (sortByKey klt l).length with
    | none => rfl
    | some b => rw [e1, e2] at h; exact h.elim
  | some a =>
    cases e2 : buildIdxE (relOnE subE (sortByKey klt l)) (relOn klt (sortByKey klt l)) env₂ (sortByKey klt l).length with
    | none => rw [e1, e2] at h; exact h.elim
    | some b =>
      rw [e1, e2] at h
      have hh : ViewRel a b := h
      simp only [Option.bind_some, Option.map_some, view, hh.roots, children_eq_of_viewRel hh]

/-- … nor on the order of the list, when no two entries tie under the key -/
theorem view_independentE {α} (subE : α → α → Option Bool) (klt : α → α → Bool) (hk : KeyOrder klt)
    (env₁ env₂ : Env) (h₁ : env₁.Valid) (h₂ : env₂.Valid) (l₁ l₂ : List α) (hp : l₁.Perm l₂)
    (hinj : ∀ a, a ∈ l₁ → ∀ b, b ∈ l₁ → klt a b = false → klt b a = false → a = b) :
    (buildTreeE subE klt env₁ l₁).map view = (buildTreeE subE klt env₂ l₂).map view := by
  rw [view_env_independentE subE klt env₁ env₂ h₁ h₂ l₁]
  unfold buildTreeE
  rw [sortByKey_perm_eq hk l₁ l₂ hp hinj]

theorem fgQueryGetM_view (m : Perm.Mapper) (cfgs : List FullConfig) (env : Env) (g : Graph) (rh : Bool) :
    fgQueryGetM m cfgs env g rh = ((buildFull m env cfgs).map view).map fun v => queryOf m rh v g := by
  unfold fgQueryGetM
  rw [Option.map_map]
  rfl

/-- **C06.query_end_to_end_total** — property C06 for the composed model with ONE hypothesis: the
    pattern strings of the configurations are pairwise distinct.  The outcome of
    `FGQuery(mapper=m, config=cfgs, require_implicit_hydrogen=rh).get(g)` — the list of groups, or the
    AssertionError of the tree builder (`none`) — is the same for every set-iteration order, every
    permutation of the configuration list and after any histories of earlier queries. -/
theorem query_end_to_end_total (m : Perm.Mapper) (rh : Bool) (env₁ env₂ : Env) (h₁ : env₁.Valid) (h₂ : env₂.Valid)
    (l₁ l₂ : List FullConfig) (hp : l₁.Perm l₂) (hs : (l₁.map fun a => a.patternStr).Nodup)
    (gs₁ gs₂ : List Graph) (g : Graph) :
    (objGet m env₁ rh (objRun m env₁ rh (new l₁) gs₁) g).2 = (objGet m env₂ rh (objRun m env₂ rh (new l₂) gs₂) g).2 ∧
    (objGet m env₁ rh (objRun m env₁ rh (new l₁) gs₁) g).2 = fgQueryGetM m l₁ env₁ g rh ∧
    fgQueryGetM m l₁ env₁ g rh = fgQueryGetM m l₂ env₂ g rh := by
  have hs' : (l₁.map fun a => (FullConfig.toC07 a).patternStr).Nodup := by
    have e : (fun a : FullConfig => (FullConfig.toC07 a).patternStr) = fun a => a.patternStr := by
      funext a; rfl
    rw [e]; exact hs
  have hk : KeyOrder (fun a b : FullConfig => fgKlt a.toC07 b.toC07) :=
    keyOrder_ofKey (fun a b => isSubgroup m a.toC07 b.toC07) (fun a : FullConfig => a.toC07.key)
  have hv : (buildFull m env₁ l₁).map view = (buildFull m env₂ l₂).map view :=
    view_independentE _ _ hk env₁ env₂ h₁ h₂ l₁ l₂ hp
      (fgKlt_total_of_distinct_strings FullConfig.toC07 l₁ hs')
  have h12 : fgQueryGetM m l₁ env₁ g rh = fgQueryGetM m l₂ env₂ g rh := by
    rw [fgQueryGetM_view, fgQueryGetM_view, hv]
  refine ⟨?_, history_end_to_end m env₁ rh l₁ gs₁ g, h12⟩
  rw [history_end_to_end, history_end_to_end, h12]

/-! ### non-vacuity (tests) -/

/-- methanol-like pattern written in two ways: distinct pattern strings, mutually embeddable -/
def exCO : Graph :=
  { nodes := [(0, { symbol := some "C" }), (1, { symbol := some "O" })],
    adj := [(0, [(1, [(0, Label.s 2)])]), (1, [(0, [(0, Label.s 2)])])] }
def exOC : Graph :=
  { nodes := [(0, { symbol := some "O" }), (1, { symbol := some "C" })],
    adj := [(0, [(1, [(0, Label.s 2)])]), (1, [(0, [(0, Label.s 2)])])] }
def exO : Graph := { nodes := [(0, { symbol := some "O" })], adj := [(0, [])] }
def exMutual : List FullConfig :=
  [FullConfig.ofParsed "a" "CO" exCO none [] none, FullConfig.ofParsed "b" "OC" exOC none [] none,
   FullConfig.ofParsed "o" "O" exO none [] none]

/-- test: on a list inside the hypothesis of `query_end_to_end_total` but outside that of
    `query_end_to_end` the builder raises — under both set orders and both list orders -/
example : distinctStringsFull exMutual = true ∧ assertionFree defaultMapper exMutual = false ∧
    fgQueryGet exMutual (Env.ofSeed 0) exCO false = none ∧
    fgQueryGet exMutual.reverse (Env.ofSeed 1) exCO false = none := by decide +kernel

/-- test: a list inside both hypotheses: `O` > `CO`; the oxygen of `CO` is reported as group `a` -/
example : assertionFree defaultMapper (exMutual.eraseIdx 1) = true ∧
    fgQueryGet (exMutual.eraseIdx 1) (Env.ofSeed 0) exCO false = some [("a", [0, 1])] ∧
    fgQueryGet (exMutual.eraseIdx 1).reverse (Env.ofSeed 1) exCO false = some [("a", [0, 1])] := by decide +kernel

end C06
