import FGVerif.Model.Subgraph
import FGVerif.Model.C12
/-!
  C05 — model of `fgutils/query.py`: `is_functional_group` (15-49),
  `FGQuery.__find_best_node_rec` (90-107), `FGQuery.__get_functional_groups` (109-135), `get`.
  No Mathlib.

  The group hierarchy is DATA here (it is built by `build_config_tree_from_list`, property C07):
  a table of tree nodes (configuration + children indices in the stored order) and the list of
  root indices in the stored order.  The harness extracts it from the real
  `FGConfigProvider.get_tree()`; the default tree is regenerated into `Generated/C05.lean`.

  Every function that asks the matcher takes it as a parameter
  `M : Graph → Int → Graph → List (Bool × List (Int × Int))` (= `map_subgraph(graph, anchor, pattern, mapper)`),
  so that the specification `Witnessed M …` is *relative to a matcher*; the model of the code is the
  instance `M := modelMatcher mapper` (`Sub.mapSubgraph`).

  Second half of the file: the executable specification with TRUE embeddings (`Witnessed⋆`):
  pruned enumeration of injective, symbol-admitted, bond-preserving maps anchored at an atom.
-/
namespace C05
open Perm Sub

/-- `map_subgraph(graph, anchor, subgraph, mapper)`: list of `(is_valid, [(host id, pattern id)])` -/
abbrev Matcher := Graph → Int → Graph → List (Bool × List (Int × Int))

def modelMatcher (m : Mapper) : Matcher := fun g a p => mapSubgraph g a p m

/-- the fields of `FGConfig` that the query reads -/
structure FGConfig where
  name : String
  pattern : Graph
  groupAtoms : List Int
  /-- in the stored order (the constructor has sorted them by size, descending) -/
  antiPatterns : List Graph := []
  maxPatternSize : Int := 0
deriving Repr, Inhabited

structure TreeNode where
  cfg : FGConfig
  /-- indices into `Tree.nodes`, in the order of `FGTreeNode.children` -/
  children : List Nat := []
deriving Repr, Inhabited

structure Tree where
  nodes : List TreeNode
  roots : List Nat
deriving Repr, Inhabited

def Tree.cfg? (t : Tree) (i : Nat) : Option FGConfig := (t.nodes[i]?).map (·.cfg)
def Tree.children (t : Tree) (i : Nat) : List Nat :=
  match t.nodes[i]? with
  | some nd => nd.children
  | none => []
def Tree.name (t : Tree) (i : Nat) : String :=
  match t.nodes[i]? with
  | some nd => nd.cfg.name
  | none => ""

/-- every child index is in range and larger than its parent's index (the harness numbers the
    nodes of the real hierarchy topologically, so real trees satisfy this) -/
def Tree.topo (t : Tree) : Bool :=
  (List.range t.nodes.length).all fun i =>
    (t.children i).all fun c => decide (i < c) && decide (c < t.nodes.length)

/-! ### `is_functional_group` -/

def insertInt (x : Int) : List Int → List Int
  | [] => [x]
  | y :: ys => if x ≤ y then x :: y :: ys else y :: insertInt x ys

/-- Python `sorted` on a list of ints -/
def sortInts (l : List Int) : List Int := l.foldr insertInt []

/-- `[m_id for m_id, fg_id in _mapping if fg_id in config.group_atoms and m_id <= max_id]`.
    `_mapping` is assembled from Python *sets* of pairs, hence the de-duplication of pairs; the
    order inside the list is not observable (only `in` and `sorted` are applied to it). -/
def groupIds (ga : List Int) (maxId : Int) (mp : List (Int × Int)) : List Int :=
  ((dedup mp []).filter fun x => ga.contains x.2 && decide (x.1 ≤ maxId)).map (·.1)

/-- the loop `for _is_fg, _mapping in mappings` with its `break`; state = `(is_fg, fg_indices)`.
    `fg_indices` keeps the ids of the last valid mapping even when `is_fg` ends up false. -/
def matchLoop (index : Int) (ga : List Int) (maxId : Int) :
    List (Bool × List (Int × Int)) → Bool × List Int → Bool × List Int
  | [], st => st
  | (false, _) :: rest, st => matchLoop index ga maxId rest st
  | (true, mp) :: rest, _ =>
      let ids := groupIds ga maxId mp
      if ids.contains index then (true, ids) else matchLoop index ga maxId rest (false, ids)

/-- insertion into a list sorted by size, descending, *after* all entries of size ≥ (stable) -/
def insertBySize (x : Graph) : List Graph → List Graph
  | [] => [x]
  | y :: ys => if y.numberOfNodes < x.numberOfNodes then x :: y :: ys else y :: insertBySize x ys

/-- `sorted([(m, m.number_of_nodes()) …], key=lambda x: x[1], reverse=True)` (stable) -/
def sortBySizeDesc (l : List Graph) : List Graph := l.foldl (fun acc x => insertBySize x acc) []

/-- `for _is_fg, _ in mappings: is_fg = is_fg and not _is_fg; if not is_fg: break` -/
def vetoInner : List (Bool × List (Int × Int)) → Bool → Bool
  | [], isFg => isFg
  | (ok, _) :: rest, isFg =>
      let isFg := isFg && !ok
      if !isFg then isFg else vetoInner rest isFg

/-- the outer anti-pattern loop: the inner `break` only leaves the inner loop, so every
    anti-pattern is still visited -/
def vetoOuter (M : Matcher) (g : Graph) (index : Int) : List Graph → Bool → Bool
  | [], isFg => isFg
  | ap :: rest, isFg => vetoOuter M g index rest (vetoInner (M g index ap) isFg)

/-- `is_functional_group(graph, index, config, mapper, max_id)` relative to a matcher -/
def isFunctionalGroupM (M : Matcher) (g : Graph) (index : Int) (cfg : FGConfig) (maxId : Option Int) :
    Bool × List Int :=
  let maxId := maxId.getD g.maxId
  let st := matchLoop index cfg.groupAtoms maxId (M g index cfg.pattern) (false, [])
  let isFg := if st.1 then vetoOuter M g index (sortBySizeDesc cfg.antiPatterns) st.1 else st.1
  (isFg, sortInts st.2)

/-- `is_functional_group(graph, index, config, mapper, max_id)` -/
def isFunctionalGroup (g : Graph) (index : Int) (cfg : FGConfig) (mapper : Mapper) (maxId : Option Int) :
    Bool × List Int :=
  isFunctionalGroupM (modelMatcher mapper) g index cfg maxId

/-! ### `__find_best_node_rec` -/

/-- one iteration of `for node in nodes`; `rec` is the recursive call on the children -/
def bestStep (M : Matcher) (t : Tree) (g : Graph) (idx : Int) (maxId : Option Int)
    (rec : List Nat → Option (Nat × List Int)) (best : Option (Nat × List Int)) (ni : Nat) :
    Option (Nat × List Int) :=
  match t.nodes[ni]? with
  | none => best
  | some nd =>
    let r := isFunctionalGroupM M g idx nd.cfg maxId
    if r.1 then
      match rec nd.children with
      | none => some (ni, r.2)
      | some x => some x
    else best

/-- `__find_best_node_rec(nodes, graph, idx, max_id)`: `none` = `(None, [])`; the LAST matching
    sibling wins (every matching sibling overwrites `best_node`).  Fuel bounds the depth. -/
def findBestNodeRecM (M : Matcher) (t : Tree) (g : Graph) (idx : Int) (maxId : Option Int) :
    Nat → List Nat → Option (Nat × List Int)
  | 0, _ => none
  | fuel + 1, nodes => nodes.foldl (bestStep M t g idx maxId (findBestNodeRecM M t g idx maxId fuel)) none

/-- fuel that suffices for every topologically numbered tree: its height is at most the number of nodes -/
def Tree.fuel (t : Tree) : Nat := t.nodes.length + 1

def findBestNodeRec (t : Tree) (g : Graph) (idx : Int) (maxId : Option Int) (mapper : Mapper) :
    Option (Nat × List Int) :=
  findBestNodeRecM (modelMatcher mapper) t g idx maxId t.fuel t.roots

/-! ### `__get_functional_groups` -/

/-- `[n_id for n_id, n_sym in graph.nodes(data=SYMBOL_KEY) if n_sym not in ["H", "C"]]` -/
def candidates (g : Graph) : List Int :=
  g.nodes.filterMap fun x =>
    match x.2.symbol with
    | some s => if s == "H" || s == "C" then none else some x.1
    | none => some x.1

/-- `for i in indices: if i in cands: cands.remove(i) elif i in unid: unid.remove(i)` -/
def removeCovered : List Int → List Int × List Int → List Int × List Int
  | [], st => st
  | i :: is, (cands, unid) =>
      if cands.contains i then removeCovered is (cands.erase i, unid)
      else if unid.contains i then removeCovered is (cands, unid.erase i)
      else removeCovered is (cands, unid)

/-- the `while len(fg_candidate_ids) > 0` loop; `find a` = `__find_best_node_rec(roots, graph, a, max_id)`;
    one unit of fuel per popped candidate -/
def worklist (find : Int → Option (Nat × List Int)) (name : Nat → String) :
    Nat → List Int → List Int → List (String × List Int) → List (String × List Int)
  | 0, _, _, groups => groups
  | _ + 1, [], _, groups => groups
  | fuel + 1, a :: cands, unid, groups =>
      match find a with
      | none => worklist find name fuel cands (unid ++ [a]) groups
      | some (ni, ids) =>
          let st := removeCovered ids (cands, unid)
          worklist find name fuel st.1 st.2 (groups ++ [(name ni, ids)])

/-- the graph the groups are searched in and the `max_id` argument:
    `max_id = max(ids)` and deep copy + hydrogen completion only if `require_implicit_hydrogen` -/
def queryGraph (g : Graph) (requireH : Bool) : Option Int × Graph :=
  if requireH then (some g.maxId, C12.addImplicitHydrogens g) else (none, g)

def getFunctionalGroupsM (M : Matcher) (t : Tree) (g : Graph) (requireH : Bool) : List (String × List Int) :=
  let cands := candidates g
  let q := queryGraph g requireH
  worklist (fun a => findBestNodeRecM M t q.2 a q.1 t.fuel t.roots) t.name cands.length cands [] []

/-- `FGQuery(mapper, config, require_implicit_hydrogen).get(graph)` with the hierarchy `t` of `config` -/
def getFunctionalGroups (t : Tree) (g : Graph) (mapper : Mapper) (requireH : Bool) : List (String × List Int) :=
  getFunctionalGroupsM (modelMatcher mapper) t g requireH

/-- the instances of the hypothesis `WitnessPathClosed` of `C05.most_specific` that FAIL for this query:
    `(atom, p, d)` with group `p` witnessed (by `M`) at the atom, a strict descendant `d` of `p` witnessed,
    but no child of `p` witnessed.  Evaluated by the harness on every query it generates. -/
def pathClosedViolations (M : Matcher) (t : Tree) (H : Graph) (maxId : Int) (atoms : List Int)
    (desc : Nat → List Nat) : List (Int × Nat × Nat) :=
  atoms.flatMap fun a =>
    let w := (List.range t.nodes.length).map fun i =>
      match t.cfg? i with
      | some c => (isFunctionalGroupM M H a c (some maxId)).1
      | none => false
    (List.range t.nodes.length).filterMap fun p =>
      if w.getD p false && !((t.children p).any fun c => w.getD c false) then
        ((desc p).find? fun d => w.getD d false).map fun d => (a, p, d)
      else none

/-! ## Executable specification with true embeddings (`Witnessed⋆`) -/

/-- symbol admission of the default kind of mapper: wildcard or equal, modulo case if `ignoreCase`.
    (`can_map_to_nothing` is not part of a functional-group query.) -/
def admits (m : Mapper) (ps hs : String) : Bool :=
  let low := fun (s : String) => if m.ignoreCase then s.toLower else s
  m.wildcard.map low == some (low ps) || low ps == low hs

def symOf (g : Graph) (n : Int) : String := (g.symbol? n).getD ""

/-- a (partial) map pattern → host as an association list; first entry wins -/
def lookup (f : List (Int × Int)) (p : Int) : Option Int := (f.find? (·.1 == p)).map (·.2)

/-- the bond `p–q` of the pattern is present with the same label between `h` and `hq` -/
def bondKept (P H : Graph) (p q h hq : Int) : Bool :=
  !P.hasEdge p q || (H.hasEdge h hq && H.bond? h hq == P.bond? p q)

/-- may pattern node `p` be sent to host node `h`, given the pairs already fixed? -/
def compatible (m : Mapper) (P H : Graph) (acc : List (Int × Int)) (p h : Int) : Bool :=
  admits m (symOf P p) (symOf H h) && !(acc.any (·.2 == h)) &&
  acc.all fun qh => bondKept P H p qh.1 h qh.2 && bondKept P H qh.1 p qh.2 h

/-- full check of an association list: total on the pattern's nodes, into the host's nodes,
    symbols admitted, injective, every pattern bond kept -/
def embOK (m : Mapper) (P H : Graph) (f : List (Int × Int)) : Bool :=
  P.nodeIds.all (fun p =>
    match lookup f p with
    | some h => H.hasNode h && admits m (symOf P p) (symOf H h)
    | none => false) &&
  P.nodeIds.all (fun p => P.nodeIds.all fun q =>
    match lookup f p, lookup f q with
    | some h, some hq => (p == q || h != hq) && bondKept P H p q h hq
    | _, _ => false)

/-- pruned backtracking: is there an extension of `acc` over the pattern nodes `order` (host
    images drawn from the host's node list) that satisfies `pred`?  Nodes already fixed are skipped. -/
def anyExt (m : Mapper) (P H : Graph) (pred : List (Int × Int) → Bool) :
    List Int → List (Int × Int) → Bool
  | [], acc => pred acc
  | p :: ps, acc =>
      if acc.any (·.1 == p) then anyExt m P H pred ps acc
      else H.nodeIds.any fun h => compatible m P H acc p h && anyExt m P H pred ps ((p, h) :: acc)

/-- depth-first order of the pattern from `p0` (performance only: every later node has a fixed
    neighbour, so `compatible` prunes); unreachable nodes are appended by `searchOrder` -/
def dfs (P : Graph) : Nat → List Int → List Int → List Int
  | 0, _, seen => seen
  | _, [], seen => seen
  | fuel + 1, p :: stack, seen =>
      if seen.contains p then dfs P fuel stack seen
      else dfs P fuel (P.neighbors p ++ stack) (seen ++ [p])

def searchOrder (P : Graph) (p0 : Int) : List Int :=
  let d := dfs P (P.numberOfNodes * P.numberOfNodes + P.numberOfNodes + 1) [p0] []
  d.filter P.hasNode ++ P.nodeIds

/-- is there an embedding of `P` into `H` sending `p0` to `a` and satisfying `pred`? -/
def existsEmbAt (m : Mapper) (P H : Graph) (p0 a : Int) (pred : List (Int × Int) → Bool) : Bool :=
  H.hasNode a && P.hasNode p0 && compatible m P H [] p0 a &&
    anyExt m P H (fun f => embOK m P H f && pred f) (searchOrder P p0) [(p0, a)]

/-- sorted host images (≤ `maxId`) of the pattern's group atoms -/
def witnessAtoms (cfg : FGConfig) (maxId : Int) (f : List (Int × Int)) : List Int :=
  sortInts (((cfg.pattern.nodeIds.filter cfg.groupAtoms.contains).filterMap (lookup f)).filter
    (fun h => decide (h ≤ maxId)))

/-- no anti-pattern of the group embeds with `a` in its image -/
def antiFree (m : Mapper) (cfg : FGConfig) (H : Graph) (a : Int) : Bool :=
  cfg.antiPatterns.all fun ap => ap.nodeIds.all fun p0 => !existsEmbAt m ap H p0 a (fun _ => true)

/-- `Witnessed⋆` with given atom list: some embedding puts a group atom on `a`, its group-atom
    images `≤ maxId` are exactly `atoms`, no anti-pattern embeds on `a` -/
def witnessedStar (m : Mapper) (cfg : FGConfig) (H : Graph) (maxId a : Int) (atoms : List Int) : Bool :=
  decide (a ≤ maxId) &&
  (cfg.pattern.nodeIds.filter cfg.groupAtoms.contains).any (fun p0 =>
    existsEmbAt m cfg.pattern H p0 a fun f => witnessAtoms cfg maxId f == atoms) &&
  antiFree m cfg H a

/-- `∃ atoms, Witnessed⋆ … a atoms` -/
def witnessedStarAny (m : Mapper) (cfg : FGConfig) (H : Graph) (maxId a : Int) : Bool :=
  decide (a ≤ maxId) &&
  (cfg.pattern.nodeIds.filter cfg.groupAtoms.contains).any (fun p0 =>
    existsEmbAt m cfg.pattern H p0 a fun _ => true) &&
  antiFree m cfg H a

/-- strict descendants of a node of the hierarchy (reachable through children links) -/
def descendants (t : Tree) : Nat → List Nat → List Nat → List Nat
  | 0, _, seen => seen
  | _, [], seen => seen
  | fuel + 1, i :: stack, seen =>
      if seen.contains i then descendants t fuel stack seen
      else descendants t fuel (t.children i ++ stack) (seen ++ [i])

def Tree.descendantsOf (t : Tree) (i : Nat) : List Nat :=
  descendants t (t.nodes.length * t.nodes.length + t.nodes.length + 1) (t.children i) []

/-- `D` contains the children of `ni` and is closed under children: then it contains every strict
    descendant of `ni` (checked, so that no property of the traversal above has to be trusted) -/
def descClosed (t : Tree) (ni : Nat) (D : List Nat) : Bool :=
  (t.children ni).all D.contains && D.all fun d => (t.children d).all D.contains

def isSorted : List Int → Bool
  | x :: y :: rest => decide (x ≤ y) && isSorted (y :: rest)
  | _ => true

/-- why an output fails the specification -/
inductive Failure where
  | unknownName (entry : Nat)
  | notSorted (entry : Nat)
  | foreignId (entry : Nat)
  | unwitnessed (entry : Nat)
  | moreSpecific (entry : Nat)
  | uncovered (atom : Int)
deriving Repr, DecidableEq, Inhabited

/-- nodes of the hierarchy carrying the name -/
def Tree.named (t : Tree) (name : String) : List Nat :=
  (List.range t.nodes.length).filter fun i => t.name i == name

/-- pairs (node carrying the entry's name, listed atom) at which the entry is `Witnessed⋆` -/
def entryWitnesses (m : Mapper) (t : Tree) (H : Graph) (maxId : Int) (e : String × List Int) : List (Nat × Int) :=
  (t.named e.1).flatMap fun ni =>
    match t.cfg? ni with
    | none => []
    | some cfg => (e.2.filter fun a => witnessedStar m cfg H maxId a e.2).map fun a => (ni, a)

/-- no strict descendant of node `na.1` is `Witnessed⋆` at atom `na.2` -/
def noDescWitnessed (m : Mapper) (t : Tree) (H : Graph) (maxId : Int) (na : Nat × Int) : Bool :=
  let D := t.descendantsOf na.1
  descClosed t na.1 D && D.all fun d =>
    match t.cfg? d with
    | none => true
    | some dc => !witnessedStarAny m dc H maxId na.2

/-- the clauses of the statement for one returned entry -/
def entryOK (m : Mapper) (t : Tree) (mol H : Graph) (maxId : Int) (e : String × List Int) : Bool :=
  !(t.named e.1).isEmpty && isSorted e.2 && e.2.all mol.hasNode &&
    (entryWitnesses m t H maxId e).any (noDescWitnessed m t H maxId)

/-- the same clauses, itemised for the replay (entry number `k`) -/
def entryFailures (m : Mapper) (t : Tree) (mol H : Graph) (maxId : Int) (k : Nat) (e : String × List Int) :
    List Failure :=
  if (t.named e.1).isEmpty then [.unknownName k]
  else
    (if isSorted e.2 then [] else [.notSorted k]) ++
    (if e.2.all mol.hasNode then [] else [.foreignId k]) ++
    (if (entryWitnesses m t H maxId e).isEmpty then [.unwitnessed k]
     else if (entryWitnesses m t H maxId e).any (noDescWitnessed m t H maxId) then []
     else [.moreSpecific k])

/-- some root group is `Witnessed⋆` at atom `x` -/
def rootWitnessed (m : Mapper) (t : Tree) (H : Graph) (maxId x : Int) : Bool :=
  t.roots.any fun r =>
    match t.cfg? r with
    | none => false
    | some cfg => witnessedStarAny m cfg H maxId x

/-- covering: a non-C non-H atom of the molecule on which some root group is witnessed is listed -/
def coverOK (m : Mapper) (t : Tree) (mol H : Graph) (maxId : Int) (out : List (String × List Int)) : Bool :=
  (candidates mol).all fun x => out.any (fun e => e.2.contains x) || !rootWitnessed m t H maxId x

def coverFailures (m : Mapper) (t : Tree) (mol H : Graph) (maxId : Int) (out : List (String × List Int)) :
    List Failure :=
  (candidates mol).filterMap fun x =>
    if out.any (fun e => e.2.contains x) || !rootWitnessed m t H maxId x then none else some (.uncovered x)

def enumFrom {α} : Nat → List α → List (Nat × α)
  | _, [] => []
  | k, x :: xs => (k, x) :: enumFrom (k + 1) xs

/-- all failing clauses of the statement of C05 for output `out` on molecule `mol` (for the replay);
    the hydrogen-completed molecule and `max_id` are those of the query -/
def specFailures (m : Mapper) (t : Tree) (mol : Graph) (requireH : Bool) (out : List (String × List Int)) :
    List Failure :=
  let H := (queryGraph mol requireH).2
  let maxId := mol.maxId
  (enumFrom 0 out).flatMap (fun ke => entryFailures m t mol H maxId ke.1 ke.2) ++
    coverFailures m t mol H maxId out

/-- the executable specification applied to implementation outputs (`specCheck_sound` in Proofs/C05.lean) -/
def specCheck (m : Mapper) (t : Tree) (mol : Graph) (requireH : Bool) (out : List (String × List Int)) : Bool :=
  let H := (queryGraph mol requireH).2
  let maxId := mol.maxId
  out.all (entryOK m t mol H maxId) && coverOK m t mol H maxId out

end C05
