import FGVerif.Model.C12
/-!
  C12 — executable specification of hydrogen completion (no Mathlib; the driver applies it to
  the *implementation's* output).

  The specification does not mention the algorithm.  It says that the output graph `o` is the
  input graph `g` *extended* by a list `new` of pairs (hydrogen id, heavy atom id):

  * `o.nodes = g.nodes ++ [(h, {symbol := "H"}) | (h, a) ∈ new]`   (old nodes and attributes are a prefix)
  * `o.adj`: every old row is the old row followed by one entry `(h, order 1)` for every `(h, a) ∈ new`
    with `a` = the row's atom (old bonds untouched); then one row `h ↦ [(a, order 1)]` per new atom
    (each hydrogen has exactly one bond, of order 1, to its heavy atom);
  * the new ids are pairwise distinct and none of them is an id of `g` ("on an id not previously in use": the
    statement does not say WHICH unused ids; that the model — like the code — takes ids above every old id is the
    separate theorem `C12.fresh_ids` / `C12.new_ids_above` about the model, which C05's reading "ids above the
    largest original id are added hydrogens" relies on);
  * every heavy atom `a` that received a hydrogen is a node of `g` whose symbol is neither `H` nor `R`
    and is tabulated in the *reference* table below;
  * every old atom `a` received exactly `expected g a` hydrogens, where for a tabulated non-H non-R symbol
    with `v` valence electrons `expected = max 0 (trunc ((2·bonds(v) − Σ doubled orders)/2))`,
    `bonds(v) = min(8, 2v) − v`, and `0` otherwise.

  The reference valences are typed in here by hand (main groups 2, 13–17 carry 2,3,4,5,6,7 valence
  electrons) and are independent of the table generated from the source (`Gen.valenceRows`):
  a corrupted table in the source makes the implementation's output fail this specification.
-/
namespace C12

/-- hand-written reference: valence electrons of the main-group elements the code tabulates -/
def refRows : List (String × Int) :=
  [ -- group 2
    ("Be", 2), ("Mg", 2), ("Ca", 2), ("Sr", 2), ("Ba", 2),
    -- group 13
    ("B", 3), ("Al", 3), ("Ga", 3), ("In", 3), ("Tl", 3),
    -- group 14 (the source has no germanium)
    ("C", 4), ("Si", 4), ("Sn", 4), ("Pb", 4),
    -- group 15
    ("N", 5), ("P", 5), ("As", 5), ("Sb", 5), ("Bi", 5),
    -- group 16
    ("O", 6), ("S", 6), ("Se", 6), ("Te", 6), ("Po", 6),
    -- group 17
    ("F", 7), ("Cl", 7), ("Br", 7), ("I", 7), ("At", 7) ]

def refValence? (s : String) : Option Int := (refRows.find? (·.1 == s)).map (·.2)

/-- number of bonds an atom with `v` valence electrons forms (octet rule) -/
def bonds (v : Int) : Int := min 8 (2 * v) - v

def order2 : Label → Int
  | .s o => o
  | _ => 0

/-- sum of the (doubled) orders of the bonds of `a` in `g` -/
def orderSum2 (g : Graph) (a : Int) : Int :=
  (((g.adjRow a).flatMap (·.2)).map fun kd => order2 kd.2).sum

/-- the number of hydrogens the statement prescribes for atom `a` of `g` -/
def expected (g : Graph) (a : Int) : Nat :=
  match g.symbol? a with
  | none => 0
  | some s =>
      if s = "R" ∨ s = "H" then 0
      else match refValence? s with
        | none => 0
        | some v => (Int.tdiv (2 * bonds v - orderSum2 g a) 2).toNat

/-- `a` carries a symbol other than `H`/`R` that the reference table knows -/
def heavyTab (g : Graph) (a : Int) : Bool :=
  match g.symbol? a with
  | some s => s != "R" && s != "H" && (refValence? s).isSome
  | none => false

def hAttr : NodeAttr := { symbol := some "H" }
/-- a single bond (key 0, doubled order 2) -/
def hBond : List (Nat × Label) := [(0, .s 2)]

abbrev Adj := List (Int × List (Int × List (Nat × Label)))

/-- adjacency of `g` extended by the hydrogens `new` = [(hydrogen id, heavy atom id)] -/
def extAdj (adj : Adj) (new : List (Int × Int)) : Adj :=
  adj.map (fun r => (r.1, r.2 ++ (new.filter (·.2 == r.1)).map fun p => (p.1, hBond)))
    ++ new.map fun p => (p.1, [(p.2, hBond)])

def extNodes (nodes : List (Int × NodeAttr)) (new : List (Int × Int)) : List (Int × NodeAttr) :=
  nodes ++ new.map fun p => (p.1, hAttr)

/-- `g` extended by the hydrogens `new` -/
def extend (g : Graph) (new : List (Int × Int)) : Graph :=
  { multi := g.multi, nodes := extNodes g.nodes new, adj := extAdj g.adj new }

/-- the clauses of the statement for a given list of (hydrogen, heavy atom) pairs -/
structure SpecWith (g o : Graph) (new : List (Int × Int)) : Prop where
  multi : o.multi = g.multi
  nodes : o.nodes = extNodes g.nodes new
  adj : o.adj = extAdj g.adj new
  distinct : (new.map (·.1)).Nodup
  fresh : ∀ p ∈ new, p.1 ∉ g.nodeIds
  heavy : ∀ p ∈ new, p.2 ∈ g.nodeIds ∧ heavyTab g p.2 = true
  count : ∀ a ∈ g.nodeIds, (new.filter (·.2 == a)).length = expected g a

/-- the specification of `add_implicit_hydrogens`: input `g`, output `o` -/
def Spec (g o : Graph) : Prop := ∃ new, SpecWith g o new

/-! ### executable checker -/

/-- the (hydrogen, heavy atom) pairs read off the output: every node after the first
    `|g.nodes|` must have exactly one adjacency entry -/
def newOf (g o : Graph) : Option (List (Int × Int)) :=
  (o.nodes.drop g.nodes.length).mapM fun x =>
    match o.adjRow x.1 with
    | [e] => some (x.1, e.1)
    | _ => none

/-- the clauses one by one (name, holds) — the driver reports the names of the failing ones -/
def clauses (g o : Graph) (new : List (Int × Int)) : List (String × Bool) :=
  [ ("multi", decide (o.multi = g.multi)),
    ("old_nodes_prefix_new_nodes_H", decide (o.nodes = extNodes g.nodes new)),
    ("old_bonds_prefix_one_single_bond_per_H", decide (o.adj = extAdj g.adj new)),
    ("new_ids_distinct", decide (new.map (·.1)).Nodup),
    ("new_ids_fresh", decide (∀ p ∈ new, p.1 ∉ g.nodeIds)),
    ("heavy_atom_tabulated_not_H_not_R", decide (∀ p ∈ new, p.2 ∈ g.nodeIds ∧ heavyTab g p.2 = true)),
    ("count", decide (∀ a ∈ g.nodeIds, (new.filter (·.2 == a)).length = expected g a)) ]

def specCheck (g o : Graph) : Bool :=
  match newOf g o with
  | some new => (clauses g o new).all (·.2)
  | none => false

/-- names of the clauses that fail (`one_bond_per_H` when a new node has not exactly one bond) -/
def failing (g o : Graph) : List String :=
  match newOf g o with
  | some new => ((clauses g o new).filter (fun c => !c.2)).map (·.1)
  | none => ["one_bond_per_new_node"]

/-- well-formedness of a networkx graph (the hypothesis of the theorems in Proofs/C12.lean; the
    driver reports it for every input): node ids distinct, one adjacency row per node (in node
    order), every neighbour is a node -/
structure WF (g : Graph) : Prop where
  nodup : g.nodeIds.Nodup
  rows : g.adj.map (·.1) = g.nodeIds
  closed : ∀ r ∈ g.adj, ∀ e ∈ r.2, e.1 ∈ g.nodeIds

instance (g : Graph) : Decidable (WF g) :=
  if h : g.nodeIds.Nodup ∧ g.adj.map (·.1) = g.nodeIds ∧ ∀ r ∈ g.adj, ∀ e ∈ r.2, e.1 ∈ g.nodeIds
  then isTrue ⟨h.1, h.2.1, h.2.2⟩ else isFalse fun w => h ⟨w.nodup, w.rows, w.closed⟩

/-- structural equality of graphs (idempotence on the implementation) -/
def graphEq (a b : Graph) : Bool :=
  decide (a.multi = b.multi) && decide (a.nodes = b.nodes) && decide (a.adj = b.adj)

end C12
