import FGVerif.Generated.Tables
import FGVerif.Model.Graph
/-!
  C01 — model of `fgutils.parse.tokenize` and `fgutils.parse.Parser` (parse.py:8-204).

  * `lex : List Char → List Token`  — Python `re` ordered alternation over the token kinds in the
    order of the generated `Gen.tokenKinds`; ATOM / BOND alternatives are the generated lists
    `Gen.atomAlternation` / `Gen.bondAlternation` (first alternative wins).  An empty alternative
    is the record of an unescaped `$` (end-of-input anchor): it matches the empty string at the end
    of the input (or before a final newline) and `tokenize` then stops; anywhere else it does not
    match, so a `$` character falls through to MISMATCH — that is the old `C$C` defect.
  * `step` / `run` / `parse cfg s off` — the `Parser` cursor machine, line by line.

  Input is assumed ASCII (`\d` and `str.islower` are modelled on ASCII).  No Mathlib.
-/
namespace C01

abbrev Str := List Char

/-- one token: kind + the part of the matched text the parser looks at -/
inductive Token where
  | atom (s : Str)          -- ATOM, the matched alternative
  | bond (s : Str)          -- BOND, the matched alternative
  | bstart                  -- BRANCH_START
  | bend                    -- BRANCH_END
  | ring (d : Str)          -- RING_NUM, the digit run
  | wild                    -- WILDCARD `R`
  | rc (g h : Str)          -- RC_BOND `<g,h>`, the two digit runs
  | label (body : Str)      -- NODE_LABEL `{body}`
  | mismatch (c : Char)     -- MISMATCH
deriving DecidableEq, Repr, Inhabited

def atomAlts : List Str := Gen.atomAlternation.map String.toList
def bondAlts : List Str := Gen.bondAlternation.map String.toList
/-- `Parser.bond_to_order_map` with the keys as character lists (orders doubled) -/
def bondTable : List (Str × Int) := Gen.bondToOrder.map fun kv => (kv.1.toList, kv.2)

/-- `p` is a prefix of `s`: the rest -/
def stripPrefix : Str → Str → Option Str
  | [], s => some s
  | _ :: _, [] => none
  | p :: ps, c :: cs => if p = c then stripPrefix ps cs else none

/-- result of trying one token kind at the current position -/
inductive Try where
  | hit (t : Token) (rest : Str)
  | stop                      -- the regex matched the empty string: `tokenize` breaks
  | miss
deriving DecidableEq, Repr

/-- ordered alternation of literals; `mk` builds the token from the matched alternative -/
def firstAlt (mk : Str → Token) : List Str → Str → Try
  | [], _ => .miss
  | [] :: as, s => if s = [] ∨ s = ['\n'] then .stop else firstAlt mk as s
  | (a :: as') :: as, s =>
      match stripPrefix (a :: as') s with
      | some r => .hit (mk (a :: as')) r
      | none => firstAlt mk as s

def isLabelChar (c : Char) : Bool := c.isAlphanum || c == '_' || c == ',' || c == '-'

/-- one token kind at a non-empty position `c :: cs` -/
def tryKind (kind : String) (c : Char) (cs : Str) : Try :=
  if kind = "ATOM" then firstAlt .atom atomAlts (c :: cs)
  else if kind = "BOND" then firstAlt .bond bondAlts (c :: cs)
  else if kind = "BRANCH_START" then (if c = '(' then .hit .bstart cs else .miss)
  else if kind = "BRANCH_END" then (if c = ')' then .hit .bend cs else .miss)
  else if kind = "RING_NUM" then
    (if c.isDigit then .hit (.ring (c :: cs.takeWhile Char.isDigit)) (cs.dropWhile Char.isDigit) else .miss)
  else if kind = "WILDCARD" then (if c = 'R' then .hit .wild cs else .miss)
  else if kind = "RC_BOND" then
    (if c = '<' then
      match cs.dropWhile Char.isDigit with
      | c1 :: r1 =>
        if c1 = ',' then
          match r1.dropWhile Char.isDigit with
          | c2 :: r2 =>
            if c2 = '>' then .hit (.rc (cs.takeWhile Char.isDigit) (r1.takeWhile Char.isDigit)) r2 else .miss
          | [] => .miss
        else .miss
      | [] => .miss
     else .miss)
  else if kind = "NODE_LABEL" then
    (if c = '{' then
      match cs.takeWhile isLabelChar, cs.dropWhile isLabelChar with
      | b :: bs, c1 :: r1 => if c1 = '}' then .hit (.label (b :: bs)) r1 else .miss
      | _, _ => .miss
     else .miss)
  else if kind = "MISMATCH" then (if c = '\n' then .miss else .hit (.mismatch c) cs)
  else .miss

/-- the kinds in order, first one that does not miss -/
def tryKinds : List String → Char → Str → Try
  | [], _, _ => .miss
  | k :: ks, c, cs =>
      match tryKind k c cs with
      | .miss => tryKinds ks c cs
      | r => r

/-- one `finditer` step at a non-empty position -/
def next (c : Char) (cs : Str) : Try := tryKinds Gen.tokenKinds c cs

/-- `tokenize` with fuel (every step consumes at least one character) -/
def lexFuel : Nat → Str → List Token
  | 0, _ => []
  | _, [] => []
  | fuel + 1, c :: cs =>
      match next c cs with
      | .hit t rest => t :: lexFuel fuel rest
      | .stop => []
      | .miss => lexFuel fuel cs        -- no alternative matches here (`\n`): finditer moves on

def lex (s : Str) : List Token := lexFuel (s.length + 1) s

/-! ### the parser -/

inductive PErr where
  | syntaxError | keyError | indexError
deriving DecidableEq, Repr

structure Cfg where
  multi : Bool
  aam : Bool
deriving DecidableEq, Repr

structure PState where
  g : Graph
  anchor : Option Int := none
  branches : List (Option Int) := []        -- stack, head = top
  rings : List (Str × Int) := []             -- `self.rings`: digit string ↦ anchor
  bond : Label := .s 2                       -- `self.bond_order` (doubled)
  isDefault : Bool := true                   -- `self.is_default_bond`
  isIts : Bool := false

/-- `str.islower()` on ASCII: at least one lower-case letter and no upper-case letter -/
def isLowerPy (s : Str) : Bool := s.any Char.isLower && !s.any Char.isUpper

/-- scalar → pair lifting of `__set_bond_order` (never for 0, never for a pair) -/
def liftOrder (its : Bool) (v : Label) : Label :=
  match v with
  | .s o => if its && o != 0 then .p o o else .s o
  | x => x

/-- `__set_bond_order(value, is_default)` -/
def setBond (st : PState) (v : Label) (isDefault : Bool) : PState :=
  { st with isDefault := isDefault, bond := liftOrder st.isIts v }

/-- `int(digits)` -/
def digitsVal (s : Str) : Nat := s.foldl (fun a c => 10 * a + (c.toNat - '0'.toNat)) 0

/-- `g_bond = 1 if g == "" else int(g)`, doubled -/
def rcVal (s : Str) : Int := if s.isEmpty then 2 else 2 * (digitsVal s : Int)

/-- `str.split(",")` -/
def splitComma : Str → List Str
  | [] => [[]]
  | c :: cs =>
      if c = ',' then [] :: splitComma cs
      else match splitComma cs with
        | h :: t => (c :: h) :: t
        | [] => [[c]]

/-- the aromatic promotion + edge + reset shared by `__process_token_add_node` and
    `__process_token_ring`: `u` = current anchor, `v` = the other end -/
def bondTo (st : PState) (u v : Int) (lowU lowV : Bool) : PState :=
  let st := if st.isDefault && lowU && lowV then setBond st (.s 3) false else st
  let st := if st.bond != .s 0 then { st with g := st.g.addEdge u v st.bond } else st
  setBond st (.s 2) true

/-- second half of `__process_token_add_node`: bond the new node `idx` to the anchor, move the anchor -/
def linkNew (st : PState) (sym : Str) (idx : Int) : Except PErr PState :=
  match st.anchor with
  | none => .ok { st with anchor := some idx }
  | some a =>
    match st.g.symbol? a with
    | none => .error .keyError
    | some asym => .ok { bondTo st a idx (isLowerPy asym.toList) (isLowerPy sym) with anchor := some idx }

/-- `__process_token_add_node` -/
def addNodeStep (cfg : Cfg) (st : PState) (sym : Str) (labels : List Str) (isLabeled : Bool) (idx : Int) :
    Except PErr PState :=
  let attr : NodeAttr :=
    { symbol := some (String.ofList sym), labels := some (labels.map String.ofList),
      isLabeled := some isLabeled, aam := if cfg.aam then some (idx + 1) else none }
  linkNew { st with g := st.g.addNode idx attr } sym idx

/-- `__process_token_ring` -/
def ringStep (st : PState) (d : Str) : Except PErr PState :=
  match st.rings.lookup d with
  | some ra =>
    match st.anchor with
    | none => .error .keyError               -- `self.graph.nodes[None]`
    | some a =>
      match st.g.symbol? a, st.g.symbol? ra with
      | some asym, some rsym =>
        .ok { bondTo st a ra (isLowerPy asym.toList) (isLowerPy rsym.toList) with
              rings := st.rings.filter (fun e => e.1 != d) }
      | _, _ => .error .keyError
  | none =>
    match st.anchor with
    | none => .error .syntaxError
    | some a => .ok { st with rings := st.rings ++ [(d, a)] }

/-- `__process_token` (+ the SyntaxError of `parse` for an unprocessed token) -/
def step (cfg : Cfg) (off : Int) (st : PState) (t : Token) : Except PErr PState :=
  let idx : Int := (st.g.numberOfNodes : Int) + off
  match t with
  | .atom s => addNodeStep cfg st s [] false idx
  | .wild => addNodeStep cfg st ['R'] [] false idx
  | .label body => addNodeStep cfg st ['#'] (splitComma body) true idx
  | .bond s =>
    match bondTable.lookup s with
    | some o => .ok (setBond st (.s o) false)
    | none => .error .keyError
  | .rc g h => .ok (setBond st (.p (rcVal g) (rcVal h)) false)
  | .bstart => .ok { st with branches := st.anchor :: st.branches }
  | .bend =>
    match st.branches with
    | a :: rest => .ok { st with anchor := a, branches := rest }
    | [] => .error .indexError
  | .ring d => ringStep st d
  | .mismatch _ => .error .syntaxError

def run (cfg : Cfg) (off : Int) : PState → List Token → Except PErr PState
  | st, [] => .ok st
  | st, t :: ts =>
    match step cfg off st t with
    | .ok st' => run cfg off st' ts
    | .error e => .error e

def Token.isRc : Token → Bool
  | .rc _ _ => true
  | _ => false

/-- the state after `__clear`, `is_its` and the first `__set_bond_order(1, is_default=True)` -/
def initState (cfg : Cfg) (its : Bool) : PState :=
  setBond { g := { multi := cfg.multi }, isIts := its } (.s 2) true

def parseTokens (cfg : Cfg) (toks : List Token) (off : Int) : Except PErr Graph :=
  match run cfg off (initState cfg (toks.any Token.isRc)) toks with
  | .ok st => .ok st.g
  | .error e => .error e

/-- `Parser(use_multigraph, init_aam).parse(s, idx_offset=off)` -/
def parse (cfg : Cfg) (s : String) (off : Int) : Except PErr Graph :=
  parseTokens cfg (lex s.toList) off

end C01
