/-
  C20 — model of `fgutils.utils.complete_aam` / `initialize_aam` (utils.py:104-153).

  A graph enters only through the order in which networkx iterates its nodes and the
  optional `aam` attribute of each node, i.e. as `List (Option Int)` (for
  `initialize_aam` also the node id).  No Mathlib.
-/
namespace C20

/-- the `offset` argument: `None`, an integer, or the string `"min"`. -/
inductive Offset where
  | none
  | int (k : Int)
  | min
deriving Repr, DecidableEq

/-- `mappings = [d[AAM_KEY] for _, d in graph.nodes(data=True) if AAM_KEY in d]` -/
def existing (nodes : List (Option Int)) : List Int := nodes.filterMap id

/-- `int(np.min(mappings))` for a non-empty list -/
def listMin : List Int → Int
  | [] => 0
  | x :: xs => xs.foldl min x

def listMax : List Int → Int
  | [] => 0
  | x :: xs => xs.foldl max x

/-- first value of `next_mapping` -/
def start (o : Offset) (mappings : List Int) : Int :=
  match o with
  | .none => 1
  | .int k => k
  | .min => if mappings.isEmpty then 1 else listMin mappings

/-- `while next_mapping in mappings: next_mapping += 1`, with fuel -/
def skipUsed (used : List Int) : Nat → Int → Int
  | 0, next => next
  | fuel + 1, next => if used.contains next then skipUsed used fuel (next + 1) else next

/-- fuel that always suffices: the loop stops at the latest one past the maximum -/
def fuelFor (used : List Int) (next : Int) : Nat := (listMax used + 1 - next).toNat

/-- the `for n, d in graph.nodes(data=True)` loop; state = (mappings, next_mapping) -/
def loop : List (Option Int) → List Int → Int → List Int
  | [], _, _ => []
  | some a :: rest, used, next => a :: loop rest used next
  | none :: rest, used, next =>
      let n := skipUsed used (fuelFor used next) next
      n :: loop rest (used ++ [n]) n

/-- `complete_aam(graph, offset)`: the `aam` of every node afterwards, in node order -/
def completeAam (o : Offset) (nodes : List (Option Int)) : List Int :=
  loop nodes (existing nodes) (start o (existing nodes))

/-- `initialize_aam(graph, offset)`: nodes are `(id, aam?)`.  Returns the `aam` attributes
    after the call and whether `RuntimeError` was raised.  The Python loop assigns
    `id + offset` node by node and raises at the first node that already has a number, so
    the nodes before it have been written and the rest are untouched. -/
def initializeAam (offset : Int) : List (Int × Option Int) → List (Option Int) × Bool
  | [] => ([], false)
  | (_, some a) :: rest => (some a :: rest.map (·.2), true)
  | (n, none) :: rest =>
      let (r, raised) := initializeAam offset rest
      (some (n + offset) :: r, raised)

/-! ### executable specification (applied to implementation outputs by the driver) -/

/-- `m` is the least integer `≥ lo` that is not in `used`, checked by scanning -/
def isLeastUnusedFrom (used : List Int) (lo m : Int) : Bool :=
  decide (lo ≤ m) && !used.contains m &&
    (List.range (m - lo).toNat).all fun d => used.contains (lo + d)

/-- running check of the statement: existing numbers kept; every new number is the least
    integer from the requested start `lo` that is unused so far, where "used" is the existing
    numbers plus the new numbers given to earlier nodes (this implies fresh & distinct) -/
def specLoop : List (Option Int) → List Int → List Int → Int → Bool
  | [], [], _, _ => true
  | some a :: rest, b :: out, used, lo => decide (a = b) && specLoop rest out used lo
  | none :: rest, b :: out, used, lo =>
      isLeastUnusedFrom used lo b && specLoop rest out (used ++ [b]) lo
  | _, _, _, _ => false

/-- the ORDERED check: additionally to the statement it demands that the new numbers are handed out in node order
    (each new number is the least unused one at the moment its node is visited).  The model passes it
    (`complete_specCheckOrdered`); it is NOT what implementation outputs are judged by (review 3, M6). -/
def specCheckOrdered (o : Offset) (nodes : List (Option Int)) (out : List Int) : Bool :=
  specLoop nodes out (existing nodes) (start o (existing nodes))

/-- the numbers given to unmapped nodes, in node order -/
def news : List (Option Int) → List Int → List Int
  | none :: ns, b :: out => b :: news ns out
  | some _ :: ns, _ :: out => news ns out
  | _, _ => []

/-- existing numbers are kept, position by position (and the lengths agree) -/
def preservedB : List (Option Int) → List Int → Bool
  | [], [] => true
  | some a :: ns, b :: out => decide (a = b) && preservedB ns out
  | none :: ns, _ :: out => preservedB ns out
  | _, _ => false

/-- every integer in `[lo, b)` is an existing or a new number, checked by scanning -/
def gapFree (ex nw : List Int) (lo b : Int) : Bool :=
  (List.range (b - lo).toNat).all fun d => ex.contains (lo + d) || nw.contains (lo + d)

/-- the statement, clause by clause and nothing more: every node has a number and existing numbers are kept;
    the new numbers are pairwise distinct, not below the requested start, distinct from all existing ones, and
    they are the smallest unused integers from the start (no unused integer between the start and a new number).
    WHICH unmapped node gets which of these numbers is not part of the statement. -/
def specCheck (o : Offset) (nodes : List (Option Int)) (out : List Int) : Bool :=
  let lo := start o (existing nodes)
  let ex := existing nodes
  let nw := news nodes out
  preservedB nodes out && decide nw.Nodup &&
    (nw.all fun b => decide (lo ≤ b) && !ex.contains b) &&
    (nw.all fun b => gapFree ex nw lo b)

end C20
