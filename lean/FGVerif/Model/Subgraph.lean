import FGVerif.Model.Graph
import FGVerif.Model.Permutation
/-!
  Model of `fgutils/algorithm/subgraph.py`: `_fit`, `map_anchored_subgraph`, `map_subgraph`,
  `map_subgraph_to_graph`.  (C03, C04; used by C05–C07.)  No Mathlib.

  Mirrors the Python line by line: visited sets are copied per call (per DFS path), the
  neighbour lists exclude the visited path, the assignments come from `Mapper.permute` in order,
  the first assignment all of whose pairs fit wins.  Python sets are lists here; only membership
  and union are used.  Recursion is on fuel; `|pattern nodes| + 1` always suffices because the
  visited pattern set grows by one per level.
-/
namespace Sub
open Perm

structure FitResult where
  ok : Bool
  mapping : List (Int × Int)      -- (host node, pattern node)
  vis : List Int                  -- visited host nodes
  pvis : List Int                 -- visited pattern nodes
deriving Repr, Inhabited

def addSet (x : Int) (s : List Int) : List Int := if s.contains x then s else s ++ [x]
def unionSet (s t : List Int) : List Int := t.foldl (fun acc x => addSet x acc) s

/-- `[(n, sym) for n in graph.neighbors(idx) if n not in excluded]`; `none` = KeyError on a
    node without symbol -/
def nbrs (g : Graph) (idx : Int) (excluded : List Int) : List (Int × String) :=
  ((g.neighbors idx).filter (fun n => !excluded.contains n)).map fun n => (n, (g.symbol? n).getD "")

/-- the loop `for pnn_i, nn_i in n_mapping` for one assignment.  `pairs` are
    `(pattern neighbour, host neighbour or none)`.  Returns `none` as soon as one pair fails. -/
def tryPairs (g p : Graph) (idx pidx : Int)
    (rec : Int → Int → FitResult) :
    List (Int × Option Int) → (List (Int × Int) × List Int × List Int) →
      Option (List (Int × Int) × List Int × List Int)
  | [], acc => some acc
  | (pnn, none) :: rest, (mp, vn, vpn) => tryPairs g p idx pidx rec rest (mp, vn, addSet pnn vpn)
  | (pnn, some nn) :: rest, (mp, vn, vpn) =>
      if g.bond? idx nn == p.bond? pidx pnn then
        let r := rec nn pnn
        if r.ok then tryPairs g p idx pidx rec rest (mp ++ r.mapping, unionSet vn r.vis, unionSet vpn r.pvis)
        else none
      else none

def fit (g p : Graph) (m : Mapper) : Nat → Int → Int → List Int → List Int → FitResult
  | 0, idx, pidx, vis, pvis => ⟨false, [(idx, pidx)], addSet idx vis, addSet pidx pvis⟩
  | fuel + 1, idx, pidx, vis, pvis =>
    let vis := addSet idx vis
    let pvis := addSet pidx pvis
    let nn := nbrs g idx vis
    let pnn := nbrs p pidx pvis
    if pnn.isEmpty then ⟨true, [(idx, pidx)], vis, pvis⟩
    else
      let assignments := m.permute (pnn.map (·.2)) (nn.map (·.2))
      let attempt := fun (a : List Int) =>
        let pairs := (pnn.map (·.1)).zip (a.map fun si => if si < 0 then none else (nn[si.toNat]?).map (·.1))
        tryPairs g p idx pidx (fun i pi => fit g p m fuel i pi vis pvis) pairs ([], [], [])
      match assignments.findSome? attempt with
      | some (mp, vn, vpn) => ⟨true, (idx, pidx) :: mp, unionSet vis vn, unionSet pvis vpn⟩
      | none => ⟨false, [(idx, pidx)], vis, pvis⟩

def fuelFor (p : Graph) : Nat := p.numberOfNodes + 1

/-- `map_anchored_subgraph(graph, anchor, subgraph, subgraph_anchor, mapper)` -/
def mapAnchored (g : Graph) (anchor : Int) (p : Graph) (panchor : Int) (m : Mapper) : FitResult :=
  let sym := (g.symbol? anchor).getD ""
  let psym := (p.symbol? panchor).getD ""
  if m.permute [psym] [sym] == [[0]] then fit g p m (fuelFor p) anchor panchor [] []
  else ⟨false, [], [anchor], [panchor]⟩

/-- `map_subgraph(graph, anchor, subgraph, mapper)` without a fixed pattern anchor -/
def mapSubgraph (g : Graph) (anchor : Int) (p : Graph) (m : Mapper) : List (Bool × List (Int × Int)) :=
  if p.nodes.isEmpty then [(true, [])]
  else p.nodeIds.map fun pidx => let r := mapAnchored g anchor p pidx m; (r.ok, r.mapping)

/-- `map_subgraph_to_graph(graph, subgraph, mapper)`; iterates `range(len(graph))` -/
def mapSubgraphToGraph (g p : Graph) (m : Mapper) : Bool :=
  (List.range g.numberOfNodes).any fun i => (mapSubgraph g (i : Int) p m).any (·.1)

end Sub
