import FGVerif.Model.Graph
import FGVerif.Generated.Tables
/-!
  C19 — model of the RDKit bridge (`fgutils/rdkit.py`: `graph_to_mol`, `mol_to_graph`) and of the
  networkx Weisfeiler-Lehman graph hash used by `fgutils.utils.mol_compare`.  No Mathlib.

  RDKit enters as a *parameter with an assumed contract* (exercised by the harness, not proved):
  an `RWMol` is the list of its atoms (symbol, atom-map number if one was set) and the list of its
  bonds (begin index, end index, bond type name);
    * `AddAtom` appends and returns the running index, `AddBond` appends;
    * `GetAtoms()` / `GetBonds()` iterate in insertion order, `GetIdx()` is the position;
    * `Atom(sym).GetSymbol() = sym` for element symbols; `GetAtomMapNum()` is the number that was
      set and `0` when none was set.
  The three tables (`sym_map`, the two `bond_order_map`s) are the *generated* ones.
-/
namespace C19

/-- Python dict lookup on a table given as the list of its `key: value` items in source order
    (a later duplicate key overrides an earlier one) -/
def dictGet {α β : Type} [BEq α] (rows : List (α × β)) (k : α) : Option β :=
  (rows.reverse.find? (·.1 == k)).map (·.2)

/-! ### RDKit side -/

structure RWMol where
  /-- symbol, atom-map number (`none` = never set) -/
  atoms : List (String × Option Int) := []
  /-- begin atom index, end atom index, bond type name -/
  bonds : List (Nat × Nat × String) := []
deriving Repr, DecidableEq

inductive Err where
  | valueError
  | keyError
deriving Repr, DecidableEq

/-- `_get_rdkit_atom_sym`: `sym_map.get(symbol, symbol)` -/
def symNorm (s : String) : String := (dictGet Gen.rdkitSymMap s).getD s

/-- the node loop of `graph_to_mol` -/
def atomsLoop (ignoreAam : Bool) : List (Int × NodeAttr) → Except Err (List (String × Option Int))
  | [] => .ok []
  | (_, d) :: rest =>
      match d.symbol with
      | none => .error .keyError                       -- d[SYMBOL_KEY]
      | some s =>
          if d.isLabeled == some true then .error .valueError
          else
            match atomsLoop ignoreAam rest with
            | .error e => .error e
            | .ok r =>
                -- `if not ignore_aam and AAM_KEY in d.keys() and d[AAM_KEY] >= 0: SetAtomMapNum`
                .ok ((symNorm s, if ignoreAam then none else d.aam.filter (fun a => decide (a ≥ 0))) :: r)

/-- `idx_map[n]`: the running index `AddAtom` returned for node `n` -/
def idxOf (ids : List Int) (n : Int) : Nat := (ids.findIdx? (· == n)).getD 0

/-- the edge loop of `graph_to_mol` over `g.edges(data=True)` -/
def bondsLoop (ids : List Int) : List (Int × Int × Nat × Label) → Except Err (List (Nat × Nat × String))
  | [] => .ok []
  | (u, v, _, l) :: rest =>
      match l with
      | .s o =>
          match dictGet Gen.graphToMolBond o with
          | none => .error .keyError                   -- bond_order_map[d[BOND_KEY]]
          | some t =>
              match bondsLoop ids rest with
              | .error e => .error e
              | .ok r => .ok ((idxOf ids u, idxOf ids v, t) :: r)
      | _ => .error .keyError

/-- `graph_to_mol(g, ignore_aam)` -/
def graphToMol (ignoreAam : Bool) (g : Graph) : Except Err RWMol :=
  match atomsLoop ignoreAam g.nodes with
  | .error e => .error e
  | .ok atoms =>
      match bondsLoop g.nodeIds g.edges with
      | .error e => .error e
      | .ok bonds => .ok { atoms := atoms, bonds := bonds }

/-- a networkx graph built by `add_node` for every node, then `add_edge` for every edge -/
def fromLists (nodes : List (Int × NodeAttr)) (edges : List (Int × Int × Label)) : Graph :=
  edges.foldl (fun g e => g.addEdge e.1 e.2.1 e.2.2) (nodes.foldl (fun g x => g.addNode x.1 x.2) {})

/-- `bond_order_map[bond_type]` with default 1 -/
def orderOfType (t : String) : Int := (dictGet Gen.molToGraphBond t).getD 2

/-- `mol_to_graph(mol)` -/
def molToGraph (m : RWMol) : Graph :=
  fromLists
    (m.atoms.zipIdx.map fun a => ((a.2 : Int), { symbol := some a.1.1, aam := a.1.2.filter (fun k => decide (k > 0)) }))
    (m.bonds.map fun b => ((b.1 : Int), (b.2.1 : Int), Label.s (orderOfType b.2.2)))

/-- `mol_to_graph(graph_to_mol(g, ignore_aam))` or the exception -/
def bridge (ignoreAam : Bool) (g : Graph) : Except Err Graph :=
  match graphToMol ignoreAam g with
  | .error e => .error e
  | .ok m => .ok (molToGraph m)

/-! ### specification side (hand-written, independent of the generated tables) -/

/-- lower-case aromatic symbols and their elements -/
def refSymMap : List (String × String) :=
  [("c", "C"), ("n", "N"), ("b", "B"), ("o", "O"), ("p", "P"), ("s", "S")]

def refNorm (s : String) : String := (dictGet refSymMap s).getD s

/-- supported (doubled) bond orders: 1, 1.5, 2, 3, 4 -/
def supportedOrders : List Int := [2, 3, 4, 6, 8]

def supportedLabel : Label → Bool
  | .s o => supportedOrders.contains o
  | _ => false

def noLabelNodes (g : Graph) : Bool := g.nodes.all fun x => !(x.2.isLabeled == some true)
def allSymbols (g : Graph) : Bool := g.nodes.all fun x => x.2.symbol.isSome
def supported (g : Graph) : Bool := g.edges.all fun e => supportedLabel e.2.2.2

/-- no bond joins an atom to itself.  RDKit's `AddBond(i, i)` raises on such a bond and the model of the
    RWMol does not model that refusal: graphs with a self-loop are outside the domain of the property
    and of `C19.bridge_lossless` (decidable hypothesis, evaluated by the driver on every case) -/
def noSelfLoops (g : Graph) : Bool := g.nodeIds.all fun u => (g.bond? u u).isNone

/-- every edge `g.edges` reports joins two nodes of `g` (true for every networkx graph) -/
def edgesClosed (g : Graph) : Bool := g.edges.all fun e => g.nodeIds.contains e.1 && g.nodeIds.contains e.2.1

/-- the atoms of the normal form: ids `0..n-1` in insertion order, symbol normalised,
    atom-map number kept when `≥ 1`, nothing else -/
def normNodes (ignoreAam : Bool) (g : Graph) : List (Int × NodeAttr) :=
  g.nodes.zipIdx.map fun x =>
    ((x.2 : Int), { symbol := x.1.2.symbol.map refNorm,
                    aam := if ignoreAam then none else x.1.2.aam.filter (fun k => decide (k ≥ 1)) })

/-- the normal form of `g`: renumbered atoms, the bonds of `g` (as `g.edges` lists them) between
    the renumbered atoms with their orders -/
def normalise (ignoreAam : Bool) (g : Graph) : Graph :=
  fromLists (normNodes ignoreAam g)
    (g.edges.map fun e => ((idxOf g.nodeIds e.1 : Int), (idxOf g.nodeIds e.2.1 : Int), e.2.2.2))

/-- all (source, neighbour, label) entries of the adjacency -/
def adjTriples (g : Graph) : List (Int × Int × Label) :=
  g.adj.flatMap fun r => r.2.flatMap fun e => e.2.map fun kd => (r.1, e.1, kd.2)

/-- the semantic statement for an in-domain input `g` and output `o`, order-insensitive on the bonds:
    same atoms in the same order (normalised), adjacency rows for exactly these atoms, and the
    same bonded pairs with the same orders (as sets of adjacency entries, renumbered) -/
structure BridgeSpec (ignoreAam : Bool) (g o : Graph) : Prop where
  simple : o.multi = false
  nodes : o.nodes = normNodes ignoreAam g
  rows : o.adj.map (·.1) = o.nodes.map (·.1)
  bonds_sound : ∀ t ∈ adjTriples o,
      ∃ s ∈ adjTriples g, t = ((idxOf g.nodeIds s.1 : Int), (idxOf g.nodeIds s.2.1 : Int), s.2.2)
  bonds_complete : ∀ s ∈ adjTriples g,
      ((idxOf g.nodeIds s.1 : Int), (idxOf g.nodeIds s.2.1 : Int), s.2.2) ∈ adjTriples o
  one_entry_per_pair : ∀ r ∈ o.adj, (r.2.map (·.1)).Nodup ∧ ∀ e ∈ r.2, e.2.length = 1

instance (ia : Bool) (g o : Graph) : Decidable (BridgeSpec ia g o) :=
  if h : o.multi = false ∧ o.nodes = normNodes ia g ∧ o.adj.map (·.1) = o.nodes.map (·.1) ∧
      (∀ t ∈ adjTriples o, ∃ s ∈ adjTriples g,
        t = ((idxOf g.nodeIds s.1 : Int), (idxOf g.nodeIds s.2.1 : Int), s.2.2)) ∧
      (∀ s ∈ adjTriples g,
        ((idxOf g.nodeIds s.1 : Int), (idxOf g.nodeIds s.2.1 : Int), s.2.2) ∈ adjTriples o) ∧
      (∀ r ∈ o.adj, (r.2.map (·.1)).Nodup ∧ ∀ e ∈ r.2, e.2.length = 1)
  then isTrue ⟨h.1, h.2.1, h.2.2.1, h.2.2.2.1, h.2.2.2.2.1, h.2.2.2.2.2⟩
  else isFalse fun s => h ⟨s.simple, s.nodes, s.rows, s.bonds_sound, s.bonds_complete, s.one_entry_per_pair⟩

/-- executable checker applied to the implementation's output (`none` = it raised ValueError,
    `some none` = it raised something else).  Inputs with a labelled node must be refused with
    ValueError; inputs with all symbols and supported orders must satisfy `BridgeSpec`; about
    anything else the property says nothing. -/
def specCheck (ignoreAam : Bool) (g : Graph) (out : Except Err Graph) : Bool :=
  if !allSymbols g then true
  else if !noLabelNodes g then (match out with | .error .valueError => true | _ => false)
  else if !supported g then true
  else match out with
    | .ok o => decide (BridgeSpec ignoreAam g o)
    | .error _ => false

/-! ### Weisfeiler-Lehman graph hash (networkx `weisfeiler_lehman_graph_hash`, undirected,
    `node_attr` and `edge_attr` given) over an abstract label algebra -/

/-- what the hash does with labels.  For networkx: `L = String`, `init` = `str(symbol)`,
    `edge l s` = `str(order) + s`, `agg own ls` = `digest(own + "".join(ls))`,
    `le` = string order, `fin` = `digest(str(tuple(items)))`. -/
structure WLParams (L : Type) where
  init : Option String → L
  edge : Label → L → L
  agg : L → List L → L
  le : L → L → Bool
  fin : List (L × Nat) → L

variable {L : Type}

def insSorted (le : L → L → Bool) (a : L) : List L → List L
  | [] => [a]
  | b :: l => if le a b then a :: b :: l else b :: insSorted le a l

/-- `sorted(xs)` -/
def sort (le : L → L → Bool) (xs : List L) : List L := xs.foldr (insSorted le) []

/-- run-length encoding: on a sorted list this is `sorted(Counter(xs).items())` -/
def rle [DecidableEq L] : List L → List (L × Nat)
  | [] => []
  | a :: l =>
      match rle l with
      | (b, n) :: r => if a = b then (b, n + 1) :: r else (a, 1) :: (b, n) :: r
      | [] => [(a, 1)]

/-- the label of node `n` after `k` rounds (`node_labels[n]`) -/
def wlLabel (P : WLParams L) (g : Graph) : Nat → Int → L
  | 0, n => P.init (g.symbol? n)
  | k + 1, n =>
      P.agg (wlLabel P g k n)
        (sort P.le ((g.adjRow n).map fun e => P.edge ((e.2.head?.map (·.2)).getD .nil) (wlLabel P g k e.1)))

/-- `sorted(Counter(node_labels.values()).items())` after round `k` -/
def wlItems [DecidableEq L] (P : WLParams L) (g : Graph) (k : Nat) : List (L × Nat) :=
  rle (sort P.le (g.nodeIds.map (wlLabel P g k)))

/-- `weisfeiler_lehman_graph_hash(g, node_attr, edge_attr, iterations)` -/
def wlHash [DecidableEq L] (P : WLParams L) (iterations : Nat) (g : Graph) : L :=
  P.fin ((List.range iterations).flatMap fun k => wlItems P g (k + 1))

/-- `str(order)` for a doubled order (`2 ↦ "1"`, `3 ↦ "1.5"`) -/
def bondStr : Label → String
  | .s o => if o % 2 == 0 then toString (o / 2) else toString (o / 2) ++ ".5"
  | .p a b => "(" ++ toString a ++ "," ++ toString b ++ ")"
  | .nil => "None"

/-- `str(tuple(items))` -/
def renderItems (items : List (String × Nat)) : String :=
  "(" ++ String.intercalate ", " (items.map fun x => "('" ++ x.1 ++ "', " ++ toString x.2 ++ ")")
    ++ (if items.length == 1 then ",)" else ")")

/-- the networkx instance for a digest function -/
def wlString (digest : String → String) : WLParams String :=
  { init := fun s => s.getD ""
    edge := fun l s => bondStr l ++ s
    agg := fun own ls => digest (own ++ String.join ls)
    le := fun a b => decide (a ≤ b)
    fin := fun items => digest (renderItems items) }

/-- `mol_compare` for one candidate: equal 3-round hashes -/
def molCompare (digest : String → String) (candidate target : Graph) : Bool :=
  wlHash (wlString digest) 3 candidate == wlHash (wlString digest) 3 target

end C19
