import FGVerif.Model.Graph
/-!
  C11 — models of

  * `fgutils.its.get_rc`                 (its.py:108-126)
  * `fgutils.utils.get_unreachable_nodes` (utils.py:181-203, after repair 859889d: identity always
    in the sum, matrix indexed through the sorted node list, node ids returned)
  * `fgutils.its.prune_its_to_rc` / `ITS.prune` (its.py:156-181, fresh ids from `max id + 1`)

  and the executable specifications the driver applies to implementation outputs.

  Numbers: since repair 5e2d069 the code clamps every matrix power to 0/1
  (`D = (np.matmul(D, A) > 0).astype(A.dtype)`), so its int64 entries stay `≤ radius + 1` and never
  wrap.  `powLoopC` / `getUnreachableClamped` / `pruneItsToRcClamped` transcribe that loop literally
  (they are what the driver evaluates); `powLoop` / `getUnreachable` / `pruneItsToRc` count walks in
  unbounded `Nat` without clamping (what the code did before the repair, minus the wrap-around) and
  are what the property theorems are stated about.  `Proofs/C11Clamp.lean` proves that the two
  return the same list / the same graph for every input (`C11.getUnreachableClamped_eq`,
  `C11.pruneItsToRcClamped_eq`).  No radius is outside the domain.  No Mathlib.
-/

/-! ### matrices as `List (List Nat)` (what numpy holds), tabulated over `range n` -/
namespace Reach

/-- `Σ_{k<n} f k` -/
def sumTo : Nat → (Nat → Nat) → Nat
  | 0, _ => 0
  | n + 1, f => sumTo n f + f n

abbrev Mat := List (List Nat)

/-- `M[i][j]`, `0` outside the matrix -/
def entry (M : Mat) (i j : Nat) : Nat := (M.getD i []).getD j 0

/-- the `n × n` matrix with entries `f i j` -/
def tab (n : Nat) (f : Nat → Nat → Nat) : Mat :=
  (List.range n).map fun i => (List.range n).map fun j => f i j

/-- `np.identity(n)` -/
def identity (n : Nat) : Mat := tab n fun i j => if i = j then 1 else 0

/-- `np.matmul(D, A)` for `n × n` matrices -/
def matMul (n : Nat) (D A : Mat) : Mat :=
  tab n fun i j => sumTo n fun k => entry D i k * entry A k j

/-- `S + D` -/
def matAdd (n : Nat) (S D : Mat) : Mat := tab n fun i j => entry S i j + entry D i j

/-- `for _ in range(r): D = D·A; D_sum += D`; state `(D, D_sum)` -/
def powLoop (n : Nat) (A : Mat) : Nat → Mat × Mat → Mat × Mat
  | 0, ds => ds
  | r + 1, (D, S) =>
      let D' := matMul n D A
      powLoop n A r (D', matAdd n S D')

/-- `D_sum` after the loop, started from `D = D_sum = I` -/
def powSumMat (n : Nat) (A : Mat) (r : Nat) : Mat := (powLoop n A r (identity n, identity n)).2

/-- `(M > 0).astype(A.dtype)` -/
def clampMat (n : Nat) (M : Mat) : Mat := tab n fun i j => if 0 < entry M i j then 1 else 0

/-- `for _ in range(r): D = (np.matmul(D, A) > 0).astype(A.dtype); D_sum += D`; state `(D, D_sum)` -/
def powLoopC (n : Nat) (A : Mat) : Nat → Mat × Mat → Mat × Mat
  | 0, ds => ds
  | r + 1, (D, S) =>
      let D' := clampMat n (matMul n D A)
      powLoopC n A r (D', matAdd n S D')

/-- `D_sum` after the clamping loop, started from `D = D_sum = I` -/
def powSumMatC (n : Nat) (A : Mat) (r : Nat) : Mat := (powLoopC n A r (identity n, identity n)).2

end Reach

namespace C11
open Reach

/-! ### get_rc -/

/-- `edge_label[0] != edge_label[1]` (labels of an ITS are pairs) -/
def isRcLabel : Label → Bool
  | .p g h => g != h
  | _ => false

/-- one iteration of `for n1, n2, d in ITS.edges(data=True)` -/
def rcStep (its : Graph) (rc : Graph) (e : Int × Int × Nat × Label) : Graph :=
  if isRcLabel e.2.2.2 then
    let rc := rc.addNode e.1 { symbol := its.symbol? e.1 }
    let rc := rc.addNode e.2.1 { symbol := its.symbol? e.2.1 }
    rc.addEdge e.1 e.2.1 e.2.2.2
  else rc

/-- `get_rc(ITS)`: a fresh simple graph with the edges whose two label components differ and
    their end nodes (with symbols), in the order of `ITS.edges` -/
def getRc (its : Graph) : Graph := its.edges.foldl (rcStep its) {}

/-! ### get_unreachable_nodes -/

/-- number of parallel edges between `u` and `v` = entry of `nx.adjacency_matrix` (edges carry no
    `weight` attribute; a self-loop counts once per edge, as networkx does for undirected graphs) -/
def adjCount (g : Graph) (u v : Int) : Nat := (g.edgeData u v).length

/-- insertion into an ascending list -/
def insertSorted (x : Int) : List Int → List Int
  | [] => [x]
  | y :: ys => if x ≤ y then x :: y :: ys else y :: insertSorted x ys

/-- `sorted(g.nodes)` (insertion sort: structurally recursive, so it also evaluates in the kernel) -/
def sortedIds (g : Graph) : List Int := g.nodeIds.foldr insertSorted []

/-- `nx.adjacency_matrix(g, nodelist=nodelist).toarray()` -/
def adjMatrix (g : Graph) (nl : List Int) : Mat :=
  tab nl.length fun i j => adjCount g (nl.getD i 0) (nl.getD j 0)

/-- `D_sum[start_indices].sum(axis=0)[j]` -/
def colSum (S : Mat) (startIdx : List Nat) (j : Nat) : Nat :=
  (startIdx.map fun i => entry S i j).sum

/-- `get_unreachable_nodes(g, start_nodes, radius)`.  `node_index[n]` is `idxOf` (a start node that
    is not in the graph is a `KeyError` in Python; here its index is out of range and its row is
    zero — the driver reports the `KeyError`). -/
def getUnreachable (g : Graph) (starts : List Int) (r : Nat) : List Int :=
  let nl := sortedIds g
  let n := nl.length
  let A := adjMatrix g nl
  let S := powSumMat n A r
  let startIdx := starts.map fun s => nl.idxOf s
  ((List.range n).filter fun j => colSum S startIdx j == 0).map fun j => nl.getD j 0

/-- `get_unreachable_nodes(g, start_nodes, radius)` as the code reads since 5e2d069: every power is
    clamped to 0/1 before it is added (same list as `getUnreachable`: `C11.getUnreachableClamped_eq`) -/
def getUnreachableClamped (g : Graph) (starts : List Int) (r : Nat) : List Int :=
  let nl := sortedIds g
  let n := nl.length
  let A := adjMatrix g nl
  let S := powSumMatC n A r
  let startIdx := starts.map fun s => nl.idxOf s
  ((List.range n).filter fun j => colSum S startIdx j == 0).map fun j => nl.getD j 0

/-! ### prune_its_to_rc -/

/-- `max(its.nodes, default=-1) + 1` -/
def freshId (g : Graph) : Int := if g.nodeIds.isEmpty then 0 else g.maxId + 1

/-- `(1, 1)` with doubled orders -/
def hBond : Label := .p 2 2

/-- `for v in its.neighbors(u): if v not in unreachable_nodes: add H` ; state `(its_pruned, new_node_id)` -/
def insertHs (unr : List Int) (st : Graph × Int) (v : Int) : Graph × Int :=
  if unr.contains v then st
  else (((st.1.addNode st.2 { symbol := some "H" }).addEdge st.2 v hBond), st.2 + 1)

/-- one iteration of `for u in unreachable_nodes` -/
def pruneStep (its : Graph) (unr : List Int) (insertH : Bool) (st : Graph × Int) (u : Int) : Graph × Int :=
  let st := if insertH then (its.neighbors u).foldl (insertHs unr) st else st
  (st.1.removeNode u, st.2)

/-- `prune_its_to_rc(its, radius, insert_hydrogens)` -/
def pruneItsToRc (its : Graph) (r : Nat) (insertH : Bool) : Graph :=
  let rc := getRc its
  let unr := getUnreachable its rc.nodeIds r
  (unr.foldl (pruneStep its unr insertH) (its, freshId its)).1

/-- `prune_its_to_rc` on top of the clamping `get_unreachable_nodes` (what the driver evaluates) -/
def pruneItsToRcClamped (its : Graph) (r : Nat) (insertH : Bool) : Graph :=
  let rc := getRc its
  let unr := getUnreachableClamped its rc.nodeIds r
  (unr.foldl (pruneStep its unr insertH) (its, freshId its)).1

/-! ### executable specifications (independent of the matrix computation) -/

/-- is there a bond `u – v` -/
def hasBond (g : Graph) (u v : Int) : Bool := decide (0 < adjCount g u v)

/-- breadth-first "within `r` steps of the start set": `within 0` = the start nodes (that are
    nodes), `within (r+1)` = `within r` and the nodes with a bond from a node of `within r` -/
def withinList (g : Graph) (starts : List Int) : Nat → List Int
  | 0 => g.nodeIds.filter fun v => starts.contains v
  | r + 1 =>
      let w := withinList g starts r
      g.nodeIds.filter fun v => w.contains v || w.any fun u => hasBond g u v

/-- `out` (as a set) is exactly the set of nodes not within `r` steps of a start node -/
def specUnreachable (g : Graph) (starts : List Int) (r : Nat) (out : List Int) : Bool :=
  let w := withinList g starts r
  out.all (fun v => g.nodeIds.contains v && !w.contains v) &&
  g.nodeIds.all (fun v => w.contains v || out.contains v)

/-- the bond `a – b` of the reaction centre, read off the ITS: its label if the components differ -/
def rcBond (its : Graph) (a b : Int) : Option Label :=
  match its.bond? a b with
  | some l => if isRcLabel l then some l else none
  | none => none

/-- `n` is an end atom of a reaction-centre bond -/
def isRcNode (its : Graph) (n : Int) : Bool := (its.neighbors n).any fun b => (rcBond its n b).isSome

/-- every id that occurs anywhere in the graph -/
def allIds (g : Graph) : List Int :=
  g.nodeIds ++ g.adj.flatMap fun r => r.1 :: r.2.map (·.1)

/-- `rc` is the reaction centre of `its`: nodes = end atoms of changed bonds with their symbols,
    bonds = the changed bonds with their labels, nothing else -/
def specRc (its rc : Graph) : Bool :=
  let ids := allIds its ++ allIds rc
  ids.all (fun n => rc.nodeIds.contains n == isRcNode its n) &&
  rc.nodeIds.all (fun n => rc.symbol? n == its.symbol? n) &&
  ids.all (fun a => ids.all fun b => rc.edgeData a b == ((rcBond its a b).map fun l => [(0, l)]).getD [])

/-- the atoms kept by pruning: within `r` steps of an end atom of a changed bond -/
def keptList (its : Graph) (r : Nat) : List Int :=
  withinList its (its.nodeIds.filter (isRcNode its)) r

/-- kept ends of the cut bonds: for every removed atom `u`, every bonded kept atom -/
def cutAnchors (its : Graph) (kept : List Int) : List Int :=
  (its.nodeIds.filter fun u => !kept.contains u).flatMap fun u =>
    (its.neighbors u).filter fun v => kept.contains v

/-- the nodes of `out` that are not nodes of `its` -/
def newIds (its out : Graph) : List Int := out.nodeIds.filter fun h => !its.nodeIds.contains h

/-- the declarative description of the pruned graph, checked on `out`:
    * old ids present = kept atoms, with unchanged attributes;
    * bonds among kept atoms unchanged;
    * without `insert_hydrogens` nothing else; with it, every other node is an `H` on an id above
      every old id, with exactly one bond, labelled `(1,1)`, to a kept atom; the anchors of the new
      nodes are, as a multiset, the kept ends of the cut bonds (one `H` per cut bond);
    * node ids pairwise distinct; adjacency only between nodes of `out`. -/
def specPrune (its : Graph) (r : Nat) (insertH : Bool) (out : Graph) : Bool :=
  let kept := keptList its r
  let news := newIds its out
  its.nodeIds.all (fun v => out.nodeIds.contains v == kept.contains v) &&
  kept.all (fun v => out.attr? v == its.attr? v) &&
  kept.all (fun a => kept.all fun b => out.edgeData a b == its.edgeData a b) &&
  decide out.nodeIds.Nodup &&
  (allIds out).all (fun a => out.nodeIds.contains a) &&
  (insertH || news.isEmpty) &&
  news.all (fun h =>
    its.nodeIds.all (fun n => decide (n < h)) &&
    out.symbol? h == some "H" &&
    match out.neighbors h with
    | [v] => kept.contains v && out.edgeData h v == [(0, hBond)] && out.edgeData v h == [(0, hBond)]
    | _ => false) &&
  kept.all (fun v => (out.neighbors v).all fun w => kept.contains w || (news.contains w && out.neighbors w == [v])) &&
  (news.map fun h => (out.neighbors h).headD 0).isPerm (if insertH then cutAnchors its kept else [])

/-- well-formedness of an undirected networkx graph in the `Graph` encoding: distinct node ids,
    one adjacency row per node in node order, distinct neighbours per row, symmetric edge data -/
def wellFormed (g : Graph) : Bool :=
  decide g.nodeIds.Nodup &&
  g.adj.map (·.1) == g.nodeIds &&
  g.adj.all (fun r => decide (r.2.map (·.1)).Nodup && r.2.all fun x => g.nodeIds.contains x.1 && g.edgeData x.1 r.1 == x.2)

/-- a simple graph: exactly key 0 on every bond -/
def simple (g : Graph) : Bool :=
  !g.multi && g.adj.all fun r => r.2.all fun x => x.2.map (·.1) == [0]

end C11
