import FGVerif.Model.Graph
import FGVerif.Generated.Tables
/-!
  C12 — model of `fgutils.utils.add_implicit_hydrogens` (utils.py:30-63, after the repair
  "new ids from max id + 1").  The valence table is the *generated* `Gen.valenceRows`.
  Bond orders are doubled integers, so `int(min(8, 2v) - v - Σ orders)` is exact:
  it is `Int.tdiv (2·(min 8 2v − v) − Σ doubled orders) 2` (truncation toward zero).
  Used by the models of C05/C06.  No Mathlib.
-/
namespace C12

/-- `valence_table[sym]`: a Python dict built by insertion, so the *last* row for a symbol wins -/
def valence? (rows : List (String × Int)) (sym : String) : Option Int :=
  (rows.reverse.find? (·.1 == sym)).map (·.2)

def labelOrder2 : Label → Int
  | .s o => o
  | _ => 0

/-- `sum([b for _, _, b in graph.edges(n, data=BOND_KEY)])`, doubled -/
def bondSum2 (g : Graph) (n : Int) : Int :=
  (g.edgesOf n).foldl (fun acc e => acc + labelOrder2 e.2.2.2) 0

/-- `int(np.min([8, 2 * valence]) - valence - bond_cnt)` -/
def hCount (valence bondSum2 : Int) : Int :=
  Int.tdiv (2 * (min 8 (2 * valence) - valence) - bondSum2) 2

/-- the inner loop: `k` hydrogens on fresh ids `next, next+1, …` bonded to `n` -/
def addHs (g : Graph) (n : Int) : Nat → Int → Graph
  | 0, _ => g
  | k + 1, next =>
      let g := g.addNode next { symbol := some "H" }
      let g := g.addEdge n next (.s 2)
      addHs g n k (next + 1)

/-- one iteration of `for n_id, n_sym in nodes` -/
def step (rows : List (String × Int)) (g : Graph) (n : Int × String) : Graph :=
  match valence? rows n.2 with
  | none => g
  | some v =>
      let h := hCount v (bondSum2 g n.1)
      addHs g n.1 h.toNat (g.maxId + 1)

/-- the node snapshot taken before the loop: `[(id, sym) … if sym not in ["R", "H"]]` -/
def heavy (g : Graph) : List (Int × String) :=
  g.nodes.filterMap fun x =>
    match x.2.symbol with
    | some s => if s == "R" || s == "H" then none else some (x.1, s)
    | none => none

def addImplicitHydrogensWith (rows : List (String × Int)) (g : Graph) : Graph :=
  (heavy g).foldl (step rows) g

/-- `add_implicit_hydrogens(graph)` with the table of the current source -/
def addImplicitHydrogens (g : Graph) : Graph := addImplicitHydrogensWith Gen.valenceRows g

end C12
