import FGVerif.Generated.Tables
/-!
  C18 — model of the tensor conversion and the tensor graph operators
  (`fgutils/torch/utils.py`, `fgutils/torch/graph.py`, `fgutils/chem/ps.py`).

  Tensors are lists: `x` = rows of `Int`, `edge_index` = list of columns `(u, v)` in column
  order, `edge_attr` = rows of `Int` (bond orders travel doubled, so `1.5 ↦ 3`).  torch and
  `Batch` are runtime and enter only through the harness; the contract assumed of
  `Batch.from_data_list` is `batchOf` below (concatenation with index offsets + batch vector),
  exercised on every batch case.

  An ITS graph enters as the order in which networkx iterates its nodes (`(id, symbol)`) and its
  edges (`its.edges(data=True)`: `(u, v, (g, h))`).  No Mathlib.
-/
namespace C18

/-- one side of an ITS bond label: doubled order, or `None` -/
abbrev Bond := Option Int

structure Edge where
  u : Int
  v : Int
  g : Bond
  h : Bond
deriving DecidableEq, Repr

/-- an ITS graph as the conversion sees it -/
structure ITS where
  nodes : List (Int × String)
  edges : List Edge
deriving DecidableEq, Repr

/-- `torch_geometric.data.Data(x, edge_index, edge_attr)` -/
structure TData where
  x : List (List Int)
  ei : List (Nat × Nat)
  ea : List (List Int)
deriving DecidableEq, Repr

/-- the `nx.Graph` that `_build_its` returns: nodes in insertion order (a node created by
    `add_edge` has no symbol), edges in insertion order with the orientation of the first
    insertion and the attribute of the last one -/
structure NxG where
  nodes : List (Int × Option String)
  edges : List (Int × Int × List Int)
deriving DecidableEq, Repr

/-! ### periodic table (`ps.py`): the GENERATED tables, and the reference table written here -/

/-- `atomic_sym2num[s]` (`none` = KeyError) -/
def sym2num (s : String) : Option Nat := Gen.atomicSym2Num.lookup s
/-- `atomic_num2sym[n]` (`none` = KeyError) -/
def num2sym (n : Nat) : Option String := Gen.atomicNum2Sym.lookup n

/-- REFERENCE periodic table, hand-written: the symbol of element `Z` is entry `Z - 1` (H … Og) -/
def refSymbols : List String :=
  ["H", "He",
   "Li", "Be", "B", "C", "N", "O", "F", "Ne",
   "Na", "Mg", "Al", "Si", "P", "S", "Cl", "Ar",
   "K", "Ca", "Sc", "Ti", "V", "Cr", "Mn", "Fe", "Co", "Ni", "Cu", "Zn", "Ga", "Ge", "As", "Se", "Br", "Kr",
   "Rb", "Sr", "Y", "Zr", "Nb", "Mo", "Tc", "Ru", "Rh", "Pd", "Ag", "Cd", "In", "Sn", "Sb", "Te", "I", "Xe",
   "Cs", "Ba", "La", "Ce", "Pr", "Nd", "Pm", "Sm", "Eu", "Gd", "Tb", "Dy", "Ho", "Er", "Tm", "Yb", "Lu",
   "Hf", "Ta", "W", "Re", "Os", "Ir", "Pt", "Au", "Hg", "Tl", "Pb", "Bi", "Po", "At", "Rn",
   "Fr", "Ra", "Ac", "Th", "Pa", "U", "Np", "Pu", "Am", "Cm", "Bk", "Cf", "Es", "Fm", "Md", "No", "Lr",
   "Rf", "Db", "Sg", "Bh", "Hs", "Mt", "Ds", "Rg", "Cn", "Nh", "Fl", "Mc", "Lv", "Ts", "Og"]

/-- reference table as `(symbol, Z)` pairs -/
def refTable : List (String × Nat) := refSymbols.mapIdx fun i s => (s, i + 1)

def refSym2num (s : String) : Option Nat := refTable.lookup s

/-! ### feature transforms -/

/-- node feature transform (its → torch): symbol ↦ feature row -/
abbrev NF := String → List Int
/-- edge feature transform (its → torch): bond label ↦ feature row -/
abbrev EF := Bond → Bond → List Int
/-- node feature transform (torch → its): feature row ↦ symbol -/
abbrev NFT := List Int → String

/-- `_default_node_feature_trans_its2torch` over a symbol→number function -/
def nfDefault (num : String → Option Nat) : NF := fun s => [((num s).getD 0 : Nat)]
/-- `_default_edge_feature_trans_its2torch`: `None ↦ 0` -/
def efDefault : EF := fun g h => [g.getD 0, h.getD 0]
/-- `_default_node_feature_trans_torch2its` -/
def nftDefault : NFT := fun row => (num2sym (row.headD 0).toNat).getD ""

/-- the custom transforms the harness uses (`tf` = 0 default, 1 and 2 custom); the same functions
    are written in Python in `harness/c18.py` -/
def nfOf (tf : Nat) (num : String → Option Nat) : NF :=
  match tf with
  | 1 => fun s => [((num s).getD 0 : Nat) + 100, 7]
  | 2 => fun s => [3, ((num s).getD 0 : Nat)]
  | _ => nfDefault num
def efOf (tf : Nat) : EF :=
  match tf with
  | 1 => fun g h => [h.getD 0, g.getD 0, g.getD 0 + h.getD 0]
  | _ => efDefault
def nftOf (tf : Nat) : NFT :=
  match tf with
  | 1 => fun row => (num2sym (row.headD 0 - 100).toNat).getD ""
  | 2 => fun row => (num2sym (row.getD 1 0).toNat).getD ""
  | _ => nftDefault

/-! ### `_its_to_torch` -/

def ITS.ids (I : ITS) : List Int := I.nodes.map (·.1)

/-- `node_index[u]`: the row of node `u` -/
def ITS.pos (I : ITS) (u : Int) : Nat := I.ids.idxOf u

/-- `_its_to_torch(its, node_feature_transform, edge_feature_transform)` -/
def toTorchWith (nf : NF) (ef : EF) (I : ITS) : TData :=
  { x := I.nodes.map fun n => nf n.2
    ei := I.edges.flatMap fun e => [(I.pos e.u, I.pos e.v), (I.pos e.v, I.pos e.u)]
    ea := I.edges.flatMap fun e => [ef e.g e.h, ef e.g e.h] }

def toTorch (I : ITS) : TData := toTorchWith (nfDefault sym2num) efDefault I

/-! ### `Batch.from_data_list` (assumed contract) and the list branch of `its_to_torch` -/

def batchGo : List TData → Nat → Nat → TData × List Nat
  | [], _, _ => ({ x := [], ei := [], ea := [] }, [])
  | t :: rest, off, j =>
      let r := batchGo rest (off + t.x.length) (j + 1)
      ({ x := t.x ++ r.1.x
         ei := t.ei.map (fun p => (p.1 + off, p.2 + off)) ++ r.1.ei
         ea := t.ea ++ r.1.ea },
       List.replicate t.x.length j ++ r.2)

/-- concatenation with offsets, and the `batch` vector -/
def batchOf (ts : List TData) : TData × List Nat := batchGo ts 0 0

/-- `its_to_torch([I₁ … I_k], nf, ef)`: every member converted with the SAME transforms -/
def toTorchList (nf : NF) (ef : EF) (Is : List ITS) : TData × List Nat :=
  batchOf (Is.map (toTorchWith nf ef))

/-! ### `_build_its`, `_its_from_torch_data`, `_its_from_torch_databatch` -/

def sameEdge (a b : Int) (e : Int × Int × List Int) : Bool :=
  (e.1 == a && e.2.1 == b) || (e.1 == b && e.2.1 == a)

def NxG.hasNode (G : NxG) (n : Int) : Bool := G.nodes.any (·.1 == n)

def NxG.touch (G : NxG) (n : Int) : NxG :=
  if G.hasNode n then G else { G with nodes := G.nodes ++ [(n, none)] }

/-- `its.add_edge(u, v, bond=attr)`: missing end nodes are created; an existing edge keeps its
    place and gets the new attribute -/
def NxG.addEdge (G : NxG) (a b : Int) (attr : List Int) : NxG :=
  let G := (G.touch a).touch b
  if G.edges.any (sameEdge a b) then
    { G with edges := G.edges.map fun e => if sameEdge a b e then (e.1, e.2.1, attr) else e }
  else { G with edges := G.edges ++ [(a, b, attr)] }

/-- `for i in range(len(node_attrs)): its.add_node(i, symbol=node_attrs[i])`, from `k` on -/
def numbered : Nat → List String → List (Int × Option String)
  | _, [] => []
  | k, s :: ss => ((k : Int), some s) :: numbered (k + 1) ss

/-- `_build_its(node_attrs, edge_index, edge_attrs)` (the two size assertions are in the callers) -/
def buildIts (attrs : List String) (cols : List ((Int × Int) × List Int)) : NxG :=
  cols.foldl (fun G c => G.addEdge c.1.1 c.1.2 c.2) { nodes := numbered 0 attrs, edges := [] }

/-- `_its_from_torch_data`; `none` = AssertionError of `_build_its` (an empty `edge_index`
    has `size(0) = 0`; attribute and column counts must agree) -/
def fromTorchWith (nft : NFT) (t : TData) : Option NxG :=
  if t.ei.isEmpty || t.ei.length != t.ea.length then none
  else some (buildIts (t.x.map nft) ((t.ei.map fun p => ((p.1 : Int), (p.2 : Int))).zip t.ea))

def fromTorch (t : TData) : Option NxG := fromTorchWith nftDefault t

/-- insertion of `x` into a strictly increasing list (no duplicates) -/
def insertU (x : Nat) : List Nat → List Nat
  | [] => [x]
  | y :: ys => if x < y then x :: y :: ys else if x = y then y :: ys else y :: insertU x ys

/-- `tensor.unique()`: sorted, without duplicates -/
def uniqueSorted (l : List Nat) : List Nat := l.foldr insertU []

def listMax (l : List Nat) : Nat := l.foldl max 0

/-- the `for batch_idx in batch_indices` loop; `off` is `node_idx_offset` -/
def fromBatchGo (nft : NFT) (t : TData) (batch : List Nat) : List Nat → Nat → Option (List NxG)
  | [], _ => some []
  | b :: bs, off =>
      let nodeIdx := (List.range batch.length).filter fun i => batch.getD i 0 == b
      let attrs := nodeIdx.map fun i => nft (t.x.getD i [])
      let cols := (t.ei.zip t.ea).filter fun c => nodeIdx.contains c.1.1
      if cols.isEmpty then none
      else
        let G := buildIts attrs (cols.map fun c => (((c.1.1 : Int) - off, (c.1.2 : Int) - off), c.2))
        (fromBatchGo nft t batch bs (listMax nodeIdx + 1)).map (G :: ·)

/-- `_its_from_torch_databatch`; `none` = AssertionError -/
def fromTorchBatchWith (nft : NFT) (t : TData) (batch : List Nat) : Option (List NxG) :=
  let idxs := uniqueSorted batch
  if idxs.length != listMax batch + 1 then none
  else fromBatchGo nft t batch idxs 0

def fromTorchBatch (t : TData) (batch : List Nat) : Option (List NxG) :=
  fromTorchBatchWith nftDefault t batch

/-! ### `node_induced_subgraph`, `edge_induced_subgraph` (graph.py) -/

/-- `node_induced_subgraph(graph, nodes)`; `nodes` distinct (the dict `node_map` and `idxOf`
    agree exactly then) -/
def nodeInduced (t : TData) (nodes : List Nat) : TData :=
  let kept := (t.ei.zip t.ea).filter fun c => nodes.contains c.1.1 && nodes.contains c.1.2
  { x := nodes.map fun i => t.x.getD i []
    ei := kept.map fun c => (nodes.idxOf c.1.1, nodes.idxOf c.1.2)
    ea := kept.map (·.2) }

/-- `edge_induced_subgraph(graph, edges)`; `edges` = column indices -/
def edgeInduced (t : TData) (edges : List Nat) : TData :=
  let cols := edges.map fun e => t.ei.getD e (0, 0)
  let sel := uniqueSorted (cols.map (·.1) ++ cols.map (·.2))
  { x := sel.map fun i => t.x.getD i []
    ei := cols.map fun c => (sel.idxOf c.1, sel.idxOf c.2)
    ea := edges.map fun e => t.ea.getD e [] }

/-! ### `get_adjacency_matrix`, `prune`, `prune_rc` -/

abbrev Mat := List (List Nat)

def tabulate (n : Nat) (f : Nat → Nat → Nat) : Mat :=
  (List.range n).map fun i => (List.range n).map fun j => f i j

def entry (M : Mat) (i j : Nat) : Nat := (M.getD i []).getD j 0

def sumRange (n : Nat) (f : Nat → Nat) : Nat := ((List.range n).map f).sum

/-- `A = zeros(n, n); A[edges[0], edges[1]] = 1` (parallel columns count once) -/
def adjMat (t : TData) : Mat :=
  tabulate t.x.length fun i j => if t.ei.contains (i, j) then 1 else 0

def eye (n : Nat) : Mat := tabulate n fun i j => if i = j then 1 else 0

def matMul (n : Nat) (D A : Mat) : Mat :=
  tabulate n fun i j => sumRange n fun k => entry D i k * entry A k j

def matAdd (n : Nat) (S D : Mat) : Mat := tabulate n fun i j => entry S i j + entry D i j

/-- `(D, D_sum)` after `r` rounds of `D = D @ A; D_sum += D`, starting from `(I, I)` -/
def powerSum (n : Nat) (A : Mat) : Nat → Mat × Mat
  | 0 => (eye n, eye n)
  | r + 1 =>
      let p := powerSum n A r
      let D := matMul n p.1 A
      (D, matAdd n p.2 D)

/-- `torch.where(D_sum[start_nodes].sum(axis=0) > 0)[0]` -/
def reachable (t : TData) (starts : List Nat) (r : Nat) : List Nat :=
  let S := (powerSum t.x.length (adjMat t) r).2
  (List.range t.x.length).filter fun j => decide (0 < (starts.map fun s => entry S s j).sum)

/-- `prune(sample, start_nodes, radius)` -/
def prune (t : TData) (starts : List Nat) (r : Nat) : TData :=
  let reach := reachable t starts r
  let kept := (t.ei.zip t.ea).filter fun c => reach.contains c.1.1 && reach.contains c.1.2
  { x := reach.map fun i => t.x.getD i []
    ei := kept.map fun c => (reach.idxOf c.1.1, reach.idxOf c.1.2)
    ea := kept.map (·.2) }

/-- `rc_node_idx`: sorted unique sources of the columns whose two attributes differ -/
def rcNodes (t : TData) : List Nat :=
  uniqueSorted (((t.ei.zip t.ea).filter fun c => c.2.getD 0 0 != c.2.getD 1 0).map (·.1.1))

/-- `prune_rc(sample, radius)` -/
def pruneRc (t : TData) (r : Nat) : TData := prune t (rcNodes t) r

/-! ### executable specifications (applied to implementation outputs by the driver) -/

/-- insertion sort of `(a, b, attr)` by `(a, b)` -/
def insE (x : Int × Int × List Int) : List (Int × Int × List Int) → List (Int × Int × List Int)
  | [] => [x]
  | y :: ys =>
      if x.1 < y.1 || (x.1 == y.1 && x.2.1 ≤ y.2.1) then x :: y :: ys else y :: insE x ys

def sortE (l : List (Int × Int × List Int)) : List (Int × Int × List Int) := l.foldr insE []

/-- an undirected edge with its smaller end first -/
def canonE (e : Int × Int × List Int) : Int × Int × List Int :=
  if e.1 ≤ e.2.1 then e else (e.2.1, e.1, e.2.2)

/-- canonical edge list of a graph: what the wire carries and the spec compares -/
def canonEdges (l : List (Int × Int × List Int)) : List (Int × Int × List Int) := sortE (l.map canonE)

/-- the edges the round trip must give back: bonds of `I` under id ↦ position -/
def expectedEdges (ef : EF) (I : ITS) : List (Int × Int × List Int) :=
  I.edges.map fun e => ((I.pos e.u : Int), (I.pos e.v : Int), ef e.g e.h)

/-- the nodes the round trip must give back: node `k` carries the symbol of the `k`-th node -/
def expectedNodes (I : ITS) : List (Int × Option String) :=
  numbered 0 (I.nodes.map (·.2))

/-- round-trip check on a graph that came back from tensors -/
def rtCheck (ef : EF) (I : ITS) (G : NxG) : Bool :=
  G.nodes == expectedNodes I && canonEdges G.edges == canonEdges (expectedEdges ef I)

/-- node features agree with the REFERENCE periodic table -/
def xCheck (tf : Nat) (I : ITS) (t : TData) : Bool :=
  t.x == I.nodes.map fun n => nfOf tf refSym2num n.2

/-- the induced subgraph of `I` on the node ids `S` (listed in the order that fixes the
    renumbering `S[k] ↦ k`) -/
def nodeSub (I : ITS) (S : List Int) : ITS :=
  { nodes := S.map fun s => (s, ((I.nodes.lookup s).getD ""))
    edges := I.edges.filter fun e => S.contains e.u && S.contains e.v }

/-- the subgraph of `I` formed by the edges with the indices `E` (in that order); its nodes are
    the end nodes of these edges in the node order of `I` (renumbering = rank among them) -/
def edgeSub (I : ITS) (E : List Nat) : ITS :=
  let es := E.filterMap fun k => I.edges[k]?
  { nodes := I.nodes.filter fun n => es.any fun e => e.u == n.1 || e.v == n.1
    edges := es }

/-- the tensor columns of the edges `E` of `I`: edge `k` ↦ columns `2k, 2k+1` -/
def edgeCols (E : List Nat) : List Nat := E.flatMap fun k => [2 * k, 2 * k + 1]

/-- breadth-first search, `r` rounds: the nodes within `r` steps of `starts` along the columns -/
def bfs (t : TData) (starts : List Nat) : Nat → List Nat
  | 0 => (List.range t.x.length).filter fun j => starts.contains j
  | r + 1 =>
      let prev := bfs t starts r
      (List.range t.x.length).filter fun j => prev.contains j || prev.any fun m => t.ei.contains (m, j)

/-- prune check: the output is the node-induced tensor subgraph on the BFS ball -/
def pruneCheck (t : TData) (starts : List Nat) (r : Nat) (out : TData) : Bool :=
  out == nodeInduced t (bfs t starts r)

/-- the reaction-centre nodes, declaratively: sources of columns whose two bond orders differ -/
def isRcNode (t : TData) (j : Nat) : Bool :=
  (t.ei.zip t.ea).any fun c => c.1.1 == j && c.2.getD 0 0 != c.2.getD 1 0

def pruneRcCheck (t : TData) (r : Nat) (out : TData) : Bool :=
  out == nodeInduced t (bfs t ((List.range t.x.length).filter (isRcNode t)) r)

/-- well-formed tensor graph: every column points at existing rows, one attribute row per column -/
def TData.wf (t : TData) : Bool :=
  t.ei.all (fun p => p.1 < t.x.length && p.2 < t.x.length) && t.ei.length == t.ea.length

/-- domain predicates of the round trip -/
def ITS.elementSymbols (I : ITS) : Bool := I.nodes.all fun n => (sym2num n.2).isSome
def ITS.hasEdge (I : ITS) : Bool := !I.edges.isEmpty
/-- distinct node ids, edges between existing distinct nodes, at most one edge per node pair -/
def ITS.simple (I : ITS) : Bool :=
  decide I.ids.Nodup && I.edges.all (fun e => I.ids.contains e.u && I.ids.contains e.v && e.u != e.v) &&
    decide (I.edges.map fun e => canonE (e.u, e.v, [])).Nodup

end C18
