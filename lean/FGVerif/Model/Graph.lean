import FGVerif.Wire
/-!
  networkx graphs as FGUtils uses them: insertion-ordered nodes with an attribute record,
  insertion-ordered adjacency with keyed edge data (a simple graph has exactly key 0).
  Shared by the models of C03–C07, C13–C16.  No Mathlib.

  Wire form (harness/common.py: enc_graph):
    (<multi 0|1> (<node> …) (<adjrow> …))
    node   := (id sym|_ (label …)|_ isLabeled|_ aam|_)
    adjrow := (id ((nbr ((key label) …)) …))
    label  := doubled int | (g h) | _
-/

/-- bond label: scalar order (doubled), pair of orders (doubled), or missing -/
inductive Label where
  | s (o : Int)
  | p (g h : Int)
  | nil
deriving DecidableEq, Repr, Inhabited

structure NodeAttr where
  symbol : Option String := none
  labels : Option (List String) := none
  isLabeled : Option Bool := none
  aam : Option Int := none
deriving DecidableEq, Repr, Inhabited

structure Graph where
  multi : Bool := false
  nodes : List (Int × NodeAttr) := []
  adj : List (Int × List (Int × List (Nat × Label))) := []
deriving Repr, Inhabited

namespace Graph

def nodeIds (g : Graph) : List Int := g.nodes.map (·.1)

def attr? (g : Graph) (n : Int) : Option NodeAttr := (g.nodes.find? (·.1 == n)).map (·.2)

def hasNode (g : Graph) (n : Int) : Bool := g.nodes.any (·.1 == n)

/-- `graph.nodes[n][SYMBOL_KEY]` (`none` = KeyError) -/
def symbol? (g : Graph) (n : Int) : Option String := (g.attr? n).bind (·.symbol)

def adjRow (g : Graph) (n : Int) : List (Int × List (Nat × Label)) :=
  match g.adj.find? (·.1 == n) with
  | some r => r.2
  | none => []

/-- `list(graph.neighbors(n))` -/
def neighbors (g : Graph) (n : Int) : List Int := (g.adjRow n).map (·.1)

def edgeData (g : Graph) (u v : Int) : List (Nat × Label) :=
  match (g.adjRow u).find? (·.1 == v) with
  | some r => r.2
  | none => []

def hasEdge (g : Graph) (u v : Int) : Bool := (g.adjRow u).any (·.1 == v)

/-- `graph.edges[u, v][BOND_KEY]` on a simple graph (first key) -/
def bond? (g : Graph) (u v : Int) : Option Label := (g.edgeData u v).head?.map (·.2)

/-- `graph.edges(data=True)` order of networkx: for every node in adjacency order, every
    neighbour not yet seen as a source, every key -/
def edges (g : Graph) : List (Int × Int × Nat × Label) :=
  let rec go : List (Int × List (Int × List (Nat × Label))) → List Int → List (Int × Int × Nat × Label)
    | [], _ => []
    | (u, row) :: rest, seen =>
        (row.filter (fun r => !seen.contains r.1)).flatMap (fun r => r.2.map fun kd => (u, r.1, kd.1, kd.2))
          ++ go rest (u :: seen)
  go g.adj []

/-- `graph.edges(n, data=True)`: incident edges of `n` in adjacency order -/
def edgesOf (g : Graph) (n : Int) : List (Int × Int × Nat × Label) :=
  (g.adjRow n).flatMap fun r => r.2.map fun kd => (n, r.1, kd.1, kd.2)

def numberOfNodes (g : Graph) : Nat := g.nodes.length

/-! ### mutation, as networkx does it (values are immutable here: the new graph is returned) -/

/-- dict-update merge of attribute records (`add_node` on an existing node) -/
def mergeAttr (old new : NodeAttr) : NodeAttr :=
  { symbol := new.symbol.orElse fun _ => old.symbol
    labels := new.labels.orElse fun _ => old.labels
    isLabeled := new.isLabeled.orElse fun _ => old.isLabeled
    aam := new.aam.orElse fun _ => old.aam }

/-- `graph.add_node(n, **attr)` -/
def addNode (g : Graph) (n : Int) (a : NodeAttr) : Graph :=
  if g.hasNode n then
    { g with nodes := g.nodes.map fun x => if x.1 == n then (x.1, mergeAttr x.2 a) else x }
  else { g with nodes := g.nodes ++ [(n, a)], adj := g.adj ++ [(n, [])] }

/-- `MultiGraph.new_edge_key`: `len(keydict)`, incremented while in use -/
def newKey (keys : List Nat) : Nat :=
  let rec go : Nat → Nat → Nat
    | 0, k => k
    | fuel + 1, k => if keys.contains k then go fuel (k + 1) else k
  go (keys.length + 1) keys.length

/-- one direction of `add_edge`: update `u`'s adjacency row with neighbour `v` -/
def addHalfEdge (multi : Bool) (row : List (Int × List (Nat × Label))) (v : Int) (key : Nat) (l : Label) :
    List (Int × List (Nat × Label)) :=
  if row.any (·.1 == v) then
    row.map fun r =>
      if r.1 == v then
        (if multi then (r.1, r.2 ++ [(key, l)]) else (r.1, [(0, l)]))
      else r
  else row ++ [(v, [(key, l)])]

/-- `graph.add_edge(u, v, bond=l)`: creates missing end nodes (without attributes); on a simple
    graph an existing edge keeps its position and gets the new label; on a multigraph a new key -/
def addEdge (g : Graph) (u v : Int) (l : Label) : Graph :=
  let g := if g.hasNode u then g else g.addNode u {}
  let g := if g.hasNode v then g else g.addNode v {}
  let key := if g.multi then newKey ((g.edgeData u v).map (·.1)) else 0
  let adj := g.adj.map fun r => if r.1 == u then (r.1, addHalfEdge g.multi r.2 v key l) else r
  let adj := if u == v then adj else
    adj.map fun r => if r.1 == v then (r.1, addHalfEdge g.multi r.2 u key l) else r
  { g with adj := adj }

/-- `graph.remove_node(n)` -/
def removeNode (g : Graph) (n : Int) : Graph :=
  { g with nodes := g.nodes.filter (·.1 != n)
           adj := (g.adj.filter (·.1 != n)).map fun r => (r.1, r.2.filter (·.1 != n)) }

/-- `graph.remove_edge(u, v)` on a simple graph -/
def removeEdge (g : Graph) (u v : Int) : Graph :=
  { g with adj := g.adj.map fun r =>
      if r.1 == u then (r.1, r.2.filter (·.1 != v))
      else if r.1 == v then (r.1, r.2.filter (·.1 != u)) else r }

def maxId (g : Graph) : Int := g.nodeIds.foldl max (g.nodeIds.headD 0)

end Graph

/-! ### wire decoding / encoding -/
namespace SExp

def asLabel : SExp → Option Label
  | .atom "_" => some .nil
  | .list [a, b] => do pure (.p (← asInt a) (← asInt b))
  | x => (asInt x).map .s

def ofLabel : Label → SExp
  | .s o => ofInt o
  | .p g h => .list [ofInt g, ofInt h]
  | .nil => none'

def asNode : SExp → Option (Int × NodeAttr)
  | .list [i, sym, labels, il, aam] => do
      pure (← asInt i, { symbol := ← asOpt asStr sym, labels := ← asOpt (asList asStr) labels,
                         isLabeled := ← asOpt asBool il, aam := ← asOpt asInt aam })
  | _ => none

def ofNode (n : Int × NodeAttr) : SExp :=
  .list [ofInt n.1, ofOpt ofStr n.2.symbol, ofOpt (ofList ofStr) n.2.labels,
         ofOpt ofBool n.2.isLabeled, ofOpt ofInt n.2.aam]

def asAdjRow : SExp → Option (Int × List (Int × List (Nat × Label))) :=
  asPair asInt (asList (asPair asInt (asList (asPair asNat asLabel))))

def ofAdjRow (r : Int × List (Int × List (Nat × Label))) : SExp :=
  .list [ofInt r.1, ofList (fun (x : Int × List (Nat × Label)) =>
    .list [ofInt x.1, ofList (fun (kd : Nat × Label) => .list [ofNat kd.1, ofLabel kd.2]) x.2]) r.2]

def asGraph : SExp → Option Graph
  | .list [m, ns, adj] => do
      pure { multi := ← asBool m, nodes := ← asList asNode ns, adj := ← asList asAdjRow adj }
  | _ => none

def ofGraph (g : Graph) : SExp :=
  .list [ofBool g.multi, ofList ofNode g.nodes, ofList ofAdjRow g.adj]

end SExp
