import FGVerif.Model.C05
import FGVerif.Model.C06
/-!
  C06 — end-to-end model of `FGQuery(mapper, config=[…]).get(graph)`: the hierarchy builder of C07
  (`build_config_tree_from_list`, with everything the interpreter may choose as the parameter
  `C07.Env`), the cache of `FGConfigProvider.get_tree` (C06) and the query algorithm of C05
  (`__get_functional_groups`) COMPOSED — the query is no longer a parameter.  No Mathlib.

  * `FullConfig`      an `FGConfig` object with every field the hierarchy (C07) and the query (C05)
                      read; `toC07` / `toC05` are the two projections; `ofParsed` is the constructor
                      `FGConfig.__init__` on already parsed graphs;
  * `buildFull`       C07's `buildTreeE` (the function `C07.buildFG` instantiates) over full configs,
                      `is_subgroup` and `order_id` read through `toC07`
                      (`C06.buildFull_map` in Proofs/C06Full.lean: projecting the result gives exactly
                      `C07.buildFG m env (l.map toC07)`);
  * `viewToTree`/`toTree`  the adapter from C07's built hierarchy (ordered roots, ordered children
                      lists, configs in node order) to C05's `Tree` data type: node `i` of the C05 tree
                      is position `i` of the sorted configuration list;
  * `fgQueryGetM`/`fgQueryGet`  one query on a fresh object; `none` = the AssertionError of `is_subgroup`;
  * `objGet`/`objRun` the same on a long-lived object with its cache and a history of earlier queries;
  * `relabel`/`alignByName`  renumbering of the nodes of a C05 tree (the harness numbers the nodes of
                      the real hierarchy topologically, the adapter by sort position).
-/
namespace C06
open C07

/-- every field of an `FGConfig` object that the hierarchy builder or the query reads -/
structure FullConfig where
  name : String
  patternStr : String
  pattern : Graph
  groupAtoms : List Int
  /-- in the stored order (the constructor has sorted them by size, descending) -/
  antiPatterns : List Graph := []
  maxPatternSize : Int := 0
deriving Repr, Inhabited

/-- what `fgconfig.py` (C07) looks at -/
def FullConfig.toC07 (c : FullConfig) : C07.FGConfig :=
  C07.FGConfig.mk c.name c.patternStr c.pattern c.antiPatterns

/-- what `query.py` (C05) looks at -/
def FullConfig.toC05 (c : FullConfig) : C05.FGConfig :=
  C05.FGConfig.mk c.name c.pattern c.groupAtoms c.antiPatterns c.maxPatternSize

/-- `FGConfig.__init__(name, pattern, group_atoms, anti_pattern, depth)` on parsed graphs:
    `group_atoms` defaults to all pattern nodes; the anti-patterns are sorted by size, descending
    (stable); `max_pattern_size` = `depth` or the largest node count among pattern and anti-patterns -/
def FullConfig.ofParsed (name patternStr : String) (pat : Graph) (groupAtoms : Option (List Int))
    (anti : List Graph) (depth : Option Int) : FullConfig :=
  let anti := C05.sortBySizeDesc anti
  FullConfig.mk name patternStr pat (groupAtoms.getD pat.nodeIds) anti
    (depth.getD (((pat :: anti).map fun g => (g.numberOfNodes : Int)).foldl max 0))

/-- `PermutationMapper(wildcard="R", ignore_case=True)`: the default mapper of `FGQuery` -/
def defaultMapper : Perm.Mapper := { wildcard := some "R", ignoreCase := true }

/-- the two relations of the hierarchy builder on full configs (assertion-free form, for the theorems) -/
def fullCfg (m : Perm.Mapper) : Cfg FullConfig :=
  Cfg.ofKey (fun a b => isSubgroup m a.toC07 b.toC07) (fun a => a.toC07.key) lexLt

/-- `build_config_tree_from_list(config_list, mapper)` (`none` = AssertionError): C07's algorithm
    `buildTreeE`, with `is_subgroup` / `order_id` of the C07 model read through `toC07` -/
def buildFull (m : Perm.Mapper) (env : Env) (l : List FullConfig) : Option (Tree FullConfig) :=
  buildTreeE (fun a b => isSubgroupE m a.toC07 b.toC07) (fun a b => fgKlt a.toC07 b.toC07) env l

/-- forget everything but the C07 fields -/
def mapTree {α β} (f : α → β) (t : Tree α) : Tree β := { items := t.items.map f, st := t.st }

/-- the adapter: node `i` = position `i` of the sorted list; its children list and the roots list
    are taken over with their ORDER -/
def viewToTree (v : View FullConfig) : C05.Tree :=
  { nodes := List.zipWith (fun c ch => { cfg := c.toC05, children := ch }) v.items v.children,
    roots := v.roots }

def toTree (t : Tree FullConfig) : C05.Tree := viewToTree (view t)

/-- the query algorithm of C05 on the adapter's tree: this is the `q` of `Model/C06.lean` -/
def queryOf (m : Perm.Mapper) (requireH : Bool) : View FullConfig → Graph → List (String × List Int) :=
  fun v g => C05.getFunctionalGroups (viewToTree v) g m requireH

/-- `FGQuery(mapper=m, config=cfgs, require_implicit_hydrogen=requireH).get(g)` on a fresh object -/
def fgQueryGetM (m : Perm.Mapper) (cfgs : List FullConfig) (env : Env) (g : Graph) (requireH : Bool) :
    Option (List (String × List Int)) :=
  (buildFull m env cfgs).map fun t => C05.getFunctionalGroups (toTree t) g m requireH

/-- the same with the default mapper -/
def fgQueryGet (cfgs : List FullConfig) (env : Env) (g : Graph) (requireH : Bool) :
    Option (List (String × List Int)) :=
  fgQueryGetM defaultMapper cfgs env g requireH

/-! ### the long-lived object: cache and history -/

/-- one `get(g)` on an object: `get_tree()` builds on first use and caches; when the build raises,
    nothing is cached and the exception reaches the caller (`none`) -/
def objGet (m : Perm.Mapper) (env : Env) (requireH : Bool) (o : FGQueryObj FullConfig) (g : Graph) :
    FGQueryObj FullConfig × Option (List (String × List Int)) :=
  match o.cache with
  | some t => (o, some (C05.getFunctionalGroups (toTree t) g m requireH))
  | none =>
      match buildFull m env o.cfgs with
      | some t => ({ o with cache := some t }, some (C05.getFunctionalGroups (toTree t) g m requireH))
      | none => (o, none)

/-- the object after a history of earlier queries -/
def objRun (m : Perm.Mapper) (env : Env) (requireH : Bool) (o : FGQueryObj FullConfig) :
    List Graph → FGQueryObj FullConfig
  | [] => o
  | g :: gs => objRun m env requireH (objGet m env requireH o g).1 gs

/-! ### executable hypotheses -/

/-- pairwise distinct pattern strings -/
def distinctStringsFull (l : List FullConfig) : Bool := decide (l.map (·.patternStr)).Nodup

/-- the "matches in both directions" assertion of `is_subgroup` cannot fire on two entries at
    different positions of the list -/
def assertionFree (m : Perm.Mapper) (l : List FullConfig) : Bool :=
  (List.range l.length).all fun i => (List.range l.length).all fun j =>
    i == j || match l[i]?, l[j]? with
      | some a, some b =>
          !(Sub.mapSubgraphToGraph b.pattern a.pattern m && Sub.mapSubgraphToGraph a.pattern b.pattern m)
      | _, _ => true

/-! ### renumbering the nodes of a C05 tree -/

/-- `σ` lists the old indices in their new order; node `σ[j]` becomes node `j` -/
def relabel (σ : List Nat) (t : C05.Tree) : C05.Tree :=
  { nodes := σ.map fun old =>
      match t.nodes[old]? with
      | some nd => { cfg := nd.cfg, children := nd.children.map fun c => σ.idxOf c }
      | none => default,
    roots := t.roots.map fun r => σ.idxOf r }

/-- the renumbering that puts the nodes of `t` in the order in which `target` lists their names -/
def alignByName (target t : C05.Tree) : List Nat :=
  target.nodes.map fun nd => t.nodes.findIdx fun x => x.cfg.name == nd.cfg.name

/-- `σ` is a permutation of `0 … n-1` -/
def isPermOfRange (σ : List Nat) (n : Nat) : Bool := σ.isPerm (List.range n)

end C06
