/-
  C17 — model of `fgutils/algorithm/subgraph_enumeration.py`
  (`is_existing_extension`, `is_valid_extension`, `enumerateCIS`,
  `_node_induced_connected_subgraphs`, `node_induced_connected_subgraphs`), and the executable
  specification (all connected vertex sets that contain the anchor).  No Mathlib.

  Input form.  `node_induced_connected_subgraphs(G, anchor)` first builds
  `nmap = {anchor: 0, other nodes in node order: 1, 2, …}` and calls
  `nx.relabel_nodes(G, nmap, copy=True)`.  The relabelled graph enters the model as adjacency
  rows `adj : List (List Nat)` on the vertices `0 … n-1` (row `i` = `list(G2.neighbors(i))`, in
  networkx's order; the harness extracts the rows from the real `relabel_nodes` result).  The
  construction of `nmap` and the translation of the output through `nmap_inv` are modelled here
  (`buildNmap`, `nmapInv`, `nodeInducedCIS`); `relabel_nodes` itself is networkx (trusted).

  The generator is modelled by the list of its events in generator order.  An event is a
  yielded list, a failing `assert`, or the model running out of fuel.  `collect` cuts the
  event list at the first event that is not a yield, which is exactly what a consumer of the
  Python generator observes (the yields before the `AssertionError`).  `Proofs/C17.lean`
  shows that neither a failing `assert` nor `outOfFuel` ever occurs on a simple graph.
-/
namespace C17

/-- an entry of the distance array `D`: `none` is `np.inf` -/
abbrev Dist := Option Nat

/-- `D[v]` -/
def dget (D : List Dist) (v : Nat) : Dist := D.getD v none

/-- `a > b` on distances with `∞` -/
def dgt : Dist → Dist → Bool
  | none, none => false
  | none, some _ => true
  | some _, none => false
  | some a, some b => decide (a > b)

/-- `a <= b` on distances with `∞` -/
def dle : Dist → Dist → Bool
  | _, none => true
  | none, some _ => false
  | some a, some b => decide (a ≤ b)

/-- `a + 1` on distances with `∞` -/
def dsucc : Dist → Dist
  | none => none
  | some a => some (a + 1)

/-- `G.neighbors(v)` -/
def nbrs (adj : List (List Nat)) (v : Nat) : List Nat := adj.getD v []

/-- `is_existing_extension(U, v, D)`:
    `x = U[-1]; return not (D[v] == D[x] and v > x)` -/
def isExistingExtension (U : List Nat) (v : Nat) (D : List Dist) : Bool :=
  let x := U.getLastD 0
  !(dget D v == dget D x && decide (v > x))

/-- `is_valid_extension(U, v, D)`:
    `s = U[0]; x = U[-1]; if v < s: return False; if D[v] > D[x]: return True;
     return not is_existing_extension(U, v, D)` -/
def isValidExtension (U : List Nat) (v : Nat) (D : List Dist) : Bool :=
  let s := U.headD 0
  let x := U.getLastD 0
  if v < s then false
  else if dgt (dget D v) (dget D x) then true
  else !isExistingExtension U v D

/-- the `for u in new_C` loop on `_D`:
    `assert D[v] + 1 <= _D[u]; _D[u] = D[v] + 1`.  `none` = the assert failed. -/
def relabelD (dv : Dist) : List Nat → List Dist → Option (List Dist)
  | [], D => some D
  | u :: rest, D =>
      if dle (dsucc dv) (dget D u) then relabelD dv rest (D.set u (dsucc dv)) else none

/-- the same loop on `_P` (`_P[u] = v`); `P` is carried but never read -/
def relabelP (v : Nat) (newC : List Nat) (P : List (Option Int)) : List (Option Int) :=
  newC.foldl (fun P u => P.set u (some (v : Int))) P

/-- what the generator does, in order -/
inductive Ev where
  | yield (U : List Nat)
  | assertFail
  | outOfFuel
deriving Repr, DecidableEq

/-- `new_C = [u for u in G.neighbors(v) if u not in C and u not in U]` -/
def newCands (adj : List (List Nat)) (U C : List Nat) (v : Nat) : List Nat :=
  (nbrs adj v).filter fun u => !C.contains u && !U.contains u

/-- `enumerateCIS(G, U, C, D, P)` (with `DAG=None`): the events of the generator in order.
    The fuel counts the recursion depth. -/
def enumerateCIS (adj : List (List Nat)) :
    Nat → List Nat → List Nat → List Dist → List (Option Int) → List Ev
  | 0, _, _, _, _ => [.outOfFuel]
  | fuel + 1, U, C, D, P =>
      .yield U :: C.flatMap fun v =>
        if U.contains v then []
        else if isValidExtension U v D then
          let newC := newCands adj U C v
          match relabelD (dget D v) newC D with
          | none => [.assertFail]
          | some D' => enumerateCIS adj fuel (U ++ [v]) (C ++ newC) D' (relabelP v newC P)
        else []

/-- `D = [inf]*n; D[anchor] = 0; for c in C: D[c] = 1` -/
def initD (n anchor : Nat) (C : List Nat) : List Dist :=
  C.foldl (fun D c => D.set c (some 1)) ((List.replicate n none).set anchor (some 0))

/-- `P = [-inf]*n; for c in C: P[c] = anchor; P[anchor] = -1` -/
def initP (n anchor : Nat) (C : List Nat) : List (Option Int) :=
  (C.foldl (fun P c => P.set c (some (anchor : Int))) (List.replicate n none)).set anchor (some (-1))

/-- `_node_induced_connected_subgraphs(G, anchor)`; fuel = number of nodes -/
def enumerateFrom (adj : List (List Nat)) (anchor : Nat) : List Ev :=
  let C := nbrs adj anchor
  enumerateCIS adj adj.length [anchor] C (initD adj.length anchor C) (initP adj.length anchor C)

/-- the yielded lists of an event list -/
def yields : List Ev → List (List Nat)
  | [] => []
  | .yield U :: rest => U :: yields rest
  | _ :: rest => yields rest

/-- what a consumer of the generator sees -/
inductive Result where
  | ok (out : List (List Nat))
  | assertion (before : List (List Nat))
  | fuel (before : List (List Nat))
deriving Repr, DecidableEq

/-- cut at the first event that is not a yield -/
def collect : List Ev → Result
  | [] => .ok []
  | .yield U :: rest =>
      match collect rest with
      | .ok o => .ok (U :: o)
      | .assertion o => .assertion (U :: o)
      | .fuel o => .fuel (U :: o)
  | .assertFail :: _ => .assertion []
  | .outOfFuel :: _ => .fuel []

def Result.map (f : List (List Nat) → List (List Nat)) : Result → Result
  | .ok o => .ok (f o)
  | .assertion o => .assertion (f o)
  | .fuel o => .fuel (f o)

/-! ### the anchor relabelling of `node_induced_connected_subgraphs` -/

/-- `nmap = {anchor: 0}; for n in G.nodes: if n == anchor: continue; nmap[n] = len(nmap)`
    as the list of `(key, value)` pairs in insertion order.  (`nodes` has no duplicates, so
    `nmap[n] = …` always inserts a new key.) -/
def buildNmap (nodes : List Nat) (anchor : Nat) : List (Nat × Nat) :=
  nodes.foldl (fun m x => if x == anchor then m else m ++ [(x, m.length)]) [(anchor, 0)]

/-- `nmap[x]` (0 stands for KeyError; not reached for `x` a node) -/
def nmapGet (m : List (Nat × Nat)) (x : Nat) : Nat :=
  match m.find? (·.1 == x) with
  | some p => p.2
  | none => 0

/-- `nmap_inv[k]` for `nmap_inv = {v: k for k, v in nmap.items()}` (values are distinct) -/
def nmapInv (m : List (Nat × Nat)) (k : Nat) : Nat :=
  match m.find? (·.2 == k) with
  | some p => p.1
  | none => 0

/-- `node_induced_connected_subgraphs(G, anchor)`: `adj` are the rows of the relabelled graph -/
def nodeInducedCIS (nodes : List Nat) (anchor : Nat) (adj : List (List Nat)) : Result :=
  let m := buildNmap nodes anchor
  (collect (enumerateFrom adj 0)).map fun out => out.map fun U => U.map (nmapInv m)

/-- the rows the relabelled graph must have, given the rows of the original graph in the
    original ids (`orig` = `[(n, list(G.neighbors(n))) for n in G.nodes]`), as sets: used by the
    driver to cross-check the harness' extraction, and by the id-level theorems. -/
def relabelConsistent (orig : List (Nat × List Nat)) (anchor : Nat) (adj : List (List Nat)) : Bool :=
  let nodes := orig.map (·.1)
  let m := buildNmap nodes anchor
  decide nodes.Nodup && nodes.contains anchor && adj.length == orig.length &&
  orig.all fun row =>
    let r := nbrs adj (nmapGet m row.1)
    row.2.all (fun y => r.contains (nmapGet m y) && nmapInv m (nmapGet m y) == y) &&
      r.all (fun j => row.2.contains (nmapInv m j))

/-! ### executable specification

  Generic in the graph: `verts` = the vertex list, `nb v` = the neighbours of `v`.  -/

/-- one round of breadth-first growth inside `S`: add the members of `S` adjacent to `R` -/
def expand (nb : Nat → List Nat) (S R : List Nat) : List Nat :=
  R ++ S.filter fun s => !R.contains s && R.any fun r => (nb r).contains s

/-- `k` rounds -/
def grow (nb : Nat → List Nat) (S : List Nat) : Nat → List Nat → List Nat
  | 0, R => R
  | k + 1, R => grow nb S k (expand nb S R)

/-- everything in `S` is reached from `a` inside `S` (and `a ∈ S`) -/
def connectedB (nb : Nat → List Nat) (a : Nat) (S : List Nat) : Bool :=
  S.contains a && (let R := grow nb S S.length [a]; S.all fun s => R.contains s)

/-- all sublists -/
def subsets : List Nat → List (List Nat)
  | [] => [[]]
  | x :: xs => let r := subsets xs; r ++ r.map (x :: ·)

/-- every subset of the vertices that contains the anchor and induces a connected subgraph
    (exponential: fine up to ~14 vertices) -/
def allConnectedSubsets (verts : List Nat) (nb : Nat → List Nat) (a : Nat) : List (List Nat) :=
  ((subsets (verts.filter (· != a))).map (a :: ·)).filter (connectedB nb a)

def insertSorted (x : Nat) : List Nat → List Nat
  | [] => [x]
  | y :: ys => if x < y then x :: y :: ys else if x = y then y :: ys else y :: insertSorted x ys

/-- canonical form of a vertex set: strictly increasing list -/
def canonSet (U : List Nat) : List Nat := U.foldr insertSorted []

def pairwiseDistinct : List (List Nat) → Bool
  | [] => true
  | x :: xs => xs.all (fun y => x != y) && pairwiseDistinct xs

/-- the property, checked on an output `out` (the implementation's or the model's):
    every yielded list is duplicate-free, consists of vertices, contains the anchor, induces a
    connected subgraph; the yielded vertex *sets* are pairwise distinct; every connected set
    that contains the anchor is yielded. -/
def specCheck (verts : List Nat) (nb : Nat → List Nat) (a : Nat) (out : List (List Nat)) : Bool :=
  let canon := out.map canonSet
  out.all (fun U => decide U.Nodup && U.all (fun u => verts.contains u) && connectedB nb a U) &&
  pairwiseDistinct canon &&
  (allConnectedSubsets verts nb a).all fun S => canon.contains (canonSet S)

/-- which clause fails first (for the replay): 0 = none -/
def specClause (verts : List Nat) (nb : Nat → List Nat) (a : Nat) (out : List (List Nat)) : Nat :=
  let canon := out.map canonSet
  if !out.all (fun U => decide U.Nodup) then 1
  else if !out.all (fun U => U.all (fun u => verts.contains u)) then 2
  else if !out.all (fun U => connectedB nb a U) then 3
  else if !pairwiseDistinct canon then 4
  else if !(allConnectedSubsets verts nb a).all (fun S => canon.contains (canonSet S)) then 5
  else 0

/-- neighbour function of the relabelled graph -/
def nbAdj (adj : List (List Nat)) : Nat → List Nat := nbrs adj

/-- neighbour function of the original graph in the original ids -/
def nbOrig (orig : List (Nat × List Nat)) (x : Nat) : List Nat :=
  match orig.find? (·.1 == x) with
  | some r => r.2
  | none => []

/-- the graph is simple and well-formed: every entry is a vertex, rows have no duplicates, no
    self-loops, adjacency is symmetric -/
def wellFormed (adj : List (List Nat)) : Bool :=
  (List.range adj.length).all fun i =>
    let r := nbrs adj i
    decide r.Nodup && r.all fun j => decide (j < adj.length) && j != i && (nbrs adj j).contains i

end C17
