import FGVerif.Model.C01Spec
/-!
  C01 — the specification WITHOUT the tables regenerated from the code under test.

  `denote` / `WF` of `Model/C01Spec.lean` read the atom alphabet and the bond orders from
  `Gen.atomAlternation` / `Gen.bondToOrder`, i.e. from `fgutils/parse.py` itself: an edit of those
  tables moves the specification together with the code.  This file is the same specification over
  two HAND-WRITTEN reference tables — they are part of the specification (like C12's reference
  valence table), taken from the documentation (`doc/graph_syntax.rst`: "closely related to the
  SMILES format", `{label}`, `<g,h>`), the `Parser` docstring and the SMILES bond symbols:

    bond symbols   `-` 1   `=` 2   `#` 3   `$` 4   `:` 1.5   `.` no bond        (`refBondTable`, doubled)
    atom symbols   H Br Cl Se Sn Si Mg Li C N O P S F B I  b c n o p s            (`refAtoms`, a set)

  and one reading rule for element symbols: *the longest symbol wins* (`Cl` is chlorine, never
  carbon followed by `l`; `S` directly followed by `n` is tin) — `sepOKRef`.  Nothing here refers
  to `Gen.*`, to the lexer's ordered alternation, or to the parser's cursor machine.

  `Proofs/C01Ref.lean` proves `WF = WFRef`, `denote = denoteRef` from three table obligations
  (`tbl_atom_reachable`, `tbl_atom_alphabet_documented`, `tbl_bond_orders_documented`): when the
  tables of the source drift these proofs break, and the driver — which applies `WFRef` /
  `denoteRef` to the implementation's output — still judges by the documented syntax.  No Mathlib.
-/
namespace C01

/-- the documented bond symbols with their orders (doubled; `:` = 1.5 ↦ 3, `.` = no bond ↦ 0) -/
def refBondTable : List (Str × Int) :=
  [(['-'], 2), (['='], 4), (['#'], 6), (['$'], 8), ([':'], 3), (['.'], 0)]

/-- the documented atom alphabet (a set; the order carries no meaning) -/
def refAtoms : List Str :=
  [['H'], ['B', 'r'], ['C', 'l'], ['S', 'e'], ['S', 'n'], ['S', 'i'], ['M', 'g'], ['L', 'i'],
   ['C'], ['N'], ['O'], ['P'], ['S'], ['F'], ['B'], ['I'],
   ['b'], ['c'], ['n'], ['o'], ['p'], ['s']]

/-- the documented order of a bond character (doubled) -/
def bondOrderRef? (c : Char) : Option Int := refBondTable.lookup [c]

/-- `labelOf` over the reference bond orders -/
def labelOfRef (its low : Bool) : Option Bond → Option Label
  | none => some (liftOrder its (.s (if low then 3 else 2)))
  | some (.sym c) =>
    match bondOrderRef? c with
    | some o => if o = 0 then none else some (liftOrder its (.s o))
    | none => none
  | some (.rc g h) => some (.p (rcVal g) (rcVal h))

def applyREvRef (its aam : Bool) (off : Int) (g : Graph) : REv → Graph
  | .node i a => g.addNode ((i : Int) + off) (nodeAttr aam off i a)
  | .edge u v low b =>
    match labelOfRef its low b with
    | some l => g.addEdge ((u : Int) + off) ((v : Int) + off) l
    | none => g

def buildGraphRef (its aam : Bool) (off : Int) (g : Graph) (evs : List REv) : Graph :=
  evs.foldl (applyREvRef its aam off) g

/-- the graph the text denotes under the documented bond orders -/
def denoteRef (c : Chain) (off : Int) (aam multi : Bool) : Graph :=
  buildGraphRef c.hasRc aam off { multi := multi } (resolve (c.events 0 none))

def revEdgesRef (its : Bool) (off : Int) : List REv → List (Int × Int × Label)
  | [] => []
  | .node .. :: r => revEdgesRef its off r
  | .edge u v low b :: r =>
    match labelOfRef its low b with
    | some l => ((u : Int) + off, (v : Int) + off, l) :: revEdgesRef its off r
    | none => revEdgesRef its off r

/-- one edge per written bond (documented orders), in textual order -/
def denoteEdgesRef (c : Chain) (off : Int) : List (Int × Int × Label) :=
  revEdgesRef c.hasRc off (resolve (c.events 0 none))

/-! ### well-formedness over the reference tables -/

/-- a token of the documented syntax -/
def tokOKRef : Token → Bool
  | .atom s => refAtoms.contains s
  | .bond s =>
    match s with
    | [c] => (bondOrderRef? c).isSome
    | _ => false
  | .bstart => true
  | .bend => true
  | .ring d => !d.isEmpty && isDigits d
  | .wild => true
  | .rc g h => isDigits g && isDigits h
  | .label b => !b.isEmpty && b.all isLabelChar
  | .mismatch _ => false

/-- may token `t` be followed by a text starting with `c`?  The longest element symbol wins: an
    atom symbol must not, together with the next character, spell another symbol of the alphabet
    (`S` + `n`); a ring number followed by a digit would be a longer number -/
def sepOKRef (t : Token) (c : Option Char) : Bool :=
  match t with
  | .atom s =>
    match c with
    | some c => !refAtoms.contains (s ++ [c])
    | none => true
  | .ring _ =>
    match c with
    | some c => !c.isDigit
    | none => true
  | _ => true

def tokensOKRef : List Token → Bool
  | [] => true
  | t :: ts => tokOKRef t && sepOKRef t (tokensChars ts).head? && tokensOKRef ts

def WFcoreRef (c : Chain) : Bool :=
  tokensOKRef c.render && c.atomsOK && marksOKFrom [] (c.events 0 none)

/-- a valid writing of a (multi)graph in the documented syntax -/
def WFRef (multi : Bool) (c : Chain) : Bool :=
  WFcoreRef c && ringsClosed (c.events 0 none) &&
    (if multi then noSelfLoops (denoteEdgesRef c 0) else pairsDistinct (denoteEdgesRef c 0))

end C01
