/-
  C09 — model of `fgutils.its.get_its`, `_add_its_nodes`, `_add_its_edges` (its.py:11-105, after
  the repair abbd97b).

  A networkx graph enters as what the code looks at:
    * its node list in `G.nodes(data=True)` order: `(id, symbol, aam?)`
    * its edge list in `G.edges(data=True)` order and orientation: `(u, v, label)`
  Bond orders are doubled integers (1.5 ↦ 3).  The ITS graph that is built is a value of the same
  shape whose nodes have an *optional* symbol/aam (networkx `add_edge` creates attribute-less
  end nodes: the "ghost node" of defect F7) and whose labels are pairs.

  No Mathlib.
-/
namespace C09

/-- ordered node list `(id, attributes σ, aam?)` and ordered edge list `(u, v, label)` -/
structure Gr (σ β : Type) where
  nodes : List (Int × σ × Option Int) := []
  edges : List (Int × Int × β) := []
deriving Repr

instance {σ β} : Inhabited (Gr σ β) := ⟨{}⟩

/-- molecular graph: every node has a symbol, labels are (doubled) bond orders -/
abbrev Mol := Gr String Int
/-- ITS graph as `get_its` builds it -/
abbrev Its := Gr (Option String) (Int × Int)

abbrev INode := Int × Option String × Option Int
abbrev IEdge := Int × Int × (Int × Int)

/-! ### the pieces of networkx / Python the code uses -/

/-- `{u, v} = {a, b}` (an undirected graph finds an edge under either orientation) -/
def samePair (u v a b : Int) : Bool := (u == a && v == b) || (u == b && v == a)

/-- `G.has_edge(u, v)` -/
def hasEdge {σ β} (G : Gr σ β) (u v : Int) : Bool := G.edges.any fun e => samePair e.1 e.2.1 u v

/-- `G[u][v][BOND_KEY]` (only evaluated after `has_edge`) -/
def bond (G : Mol) (u v : Int) : Int :=
  match G.edges.find? fun e => samePair e.1 e.2.1 u v with
  | some e => e.2.2
  | none => 0

/-- `n in ITS.nodes` -/
def hasNode {σ β} (I : Gr σ β) (n : Int) : Bool := I.nodes.any fun x => x.1 == n

/-- `ITS.add_node(n, symbol=…, idx_map=…, aam=…)`: a new node is appended; on an existing node the
    given attributes overwrite the old ones (all observed attributes are given) -/
def addNode (I : Its) (n : Int) (s : Option String) (a : Option Int) : Its :=
  if hasNode I n then
    { I with nodes := I.nodes.map fun x => if x.1 == n then (n, s, a) else x }
  else { I with nodes := I.nodes ++ [(n, s, a)] }

/-- `ITS.add_edge(a, b, bond=l)`: creates missing end nodes without attributes; an existing edge
    keeps its place and gets the new label -/
def addEdge (I : Its) (a b : Int) (l : Int × Int) : Its :=
  let I := if hasNode I a then I else { I with nodes := I.nodes ++ [(a, none, none)] }
  let I := if hasNode I b then I else { I with nodes := I.nodes ++ [(b, none, none)] }
  if hasEdge I a b then
    { I with edges := I.edges.map fun e => if samePair e.1 e.2.1 a b then (e.1, e.2.1, l) else e }
  else { I with edges := I.edges ++ [(a, b, l)] }

/-- a Python dict `int → int` filled by assignments in a loop: the list holds the assignments
    latest first, so `List.lookup` returns what the dict holds -/
abbrev Dict := List (Int × Int)

/-- `collections.defaultdict(lambda: None)[k]`, where `k` itself may be `None` -/
def get (d : Dict) (k : Option Int) : Option Int := k.bind fun k => d.lookup k

/-- `eta_G[n] = d[AAM_KEY]` for every node with `AAM_KEY in d and d[AAM_KEY] >= 0` -/
def etaFwd (G : Mol) : Dict :=
  (G.nodes.filterMap fun x => x.2.2.bind fun a => if a ≥ 0 then some (x.1, a) else none).reverse

/-- `eta_G_inv[d[AAM_KEY]] = n` for the same nodes -/
def etaInv (G : Mol) : Dict :=
  (G.nodes.filterMap fun x => x.2.2.bind fun a => if a ≥ 0 then some (a, x.1) else none).reverse

/-! ### `_add_its_nodes` -/

/-- body of `for n, d in G.nodes(data=True)` -/
def nodeStepG (G H : Mol) (I : Its) (x : Int × String × Option Int) : Its :=
  let nITS := get (etaFwd G) (some x.1)
  let nH := get (etaInv H) nITS
  match nITS, nH with
  | some a, some _ => addNode I a (some x.2.1) (some a)
  | _, _ => I

/-- body of `for n, d in H.nodes(data=True)` -/
def nodeStepH (G H : Mol) (I : Its) (x : Int × String × Option Int) : Its :=
  let nITS := get (etaFwd H) (some x.1)
  let nG := get (etaInv G) nITS
  match nITS, nG with
  | some a, some _ => if !hasNode I a then addNode I a (some x.2.1) (some a) else I
  | _, _ => I

def addItsNodes (I : Its) (G H : Mol) : Its :=
  H.nodes.foldl (nodeStepH G H) (G.nodes.foldl (nodeStepG G H) I)

/-! ### `_add_its_edges` -/

/-- body of `for n1, n2, d in G.edges(data=True)` -/
def edgeStepG (G H : Mol) (I : Its) (e : Int × Int × Int) : Its :=
  let eG := e.2.2
  let nITS1 := get (etaFwd G) (some e.1)
  let nITS2 := get (etaFwd G) (some e.2.1)
  let nH1 := get (etaInv H) nITS1
  let nH2 := get (etaInv H) nITS2
  match nH1, nH2 with
  | some h1, some h2 =>
    let eH := if hasEdge H h1 h2 then bond H h1 h2 else 0
    match nITS1, nITS2 with
    | some a, some b =>
      if !hasEdge I a b && decide (a > 0) && decide (b > 0) then addEdge I a b (eG, eH) else I
    | _, _ => I
  | _, _ => I      -- `if n_H1 is None or n_H2 is None: continue`

/-- body of `for n1, n2, d in H.edges(data=True)` -/
def edgeStepH (G H : Mol) (I : Its) (e : Int × Int × Int) : Its :=
  let eH := e.2.2
  let nITS1 := get (etaFwd H) (some e.1)
  let nITS2 := get (etaFwd H) (some e.2.1)
  let nG1 := get (etaInv G) nITS1
  let nG2 := get (etaInv G) nITS2
  match nG1, nG2 with
  | some g1, some g2 =>
    match nITS1, nITS2 with
    | some a, some b =>
      if !hasEdge G g1 g2 && decide (a > 0) && decide (b > 0) then addEdge I a b (0, eH) else I
    | _, _ => I
  | _, _ => I      -- `if n_G1 is None or n_G2 is None: continue`

def addItsEdges (I : Its) (G H : Mol) : Its :=
  H.edges.foldl (edgeStepH G H) (G.edges.foldl (edgeStepG G H) I)

/-- `get_its(G, H)` -/
def getIts (G H : Mol) : Its := addItsEdges (addItsNodes {} G H) G H

/-! ### the specification, executable (Proofs/C09.lean turns it into the abstract statement)

  It speaks about atom-map numbers only.  Map number 0 is RDKit's "unmapped" and negative
  numbers are nonsense: the statement is made for graphs whose present map numbers are all `≥ 1`
  (predicate `domOk`); the code itself treats 0 inconsistently (a node but never an edge). -/

/-- the map numbers that occur in `G` -/
def mapNums (G : Mol) : List Int := G.nodes.filterMap fun x => x.2.2

/-- symbol of the atom that carries map number `a` -/
def symOf (G : Mol) (a : Int) : Option String :=
  (G.nodes.find? fun x => x.2.2 == some a).map fun x => x.2.1

/-- map number of the atom with node id `u` -/
def aamOf (G : Mol) (u : Int) : Option Int := (G.nodes.find? fun x => x.1 == u).bind fun x => x.2.2

/-- does edge `e` join the atoms numbered `a` and `b`? -/
def joins (G : Mol) (a b : Int) (e : Int × Int × Int) : Bool :=
  (aamOf G e.1 == some a && aamOf G e.2.1 == some b) || (aamOf G e.1 == some b && aamOf G e.2.1 == some a)

/-- (doubled) bond order between the atoms numbered `a` and `b`; 0 = not bonded -/
def ordOf (G : Mol) (a b : Int) : Int :=
  match G.edges.find? (joins G a b) with
  | some e => e.2.2
  | none => 0

/-- map numbers `≥ 1` present on both sides -/
def specNums (G H : Mol) : List Int :=
  (mapNums G).filter fun a => decide (1 ≤ a) && (mapNums H).contains a

def specNodes (G H : Mol) : List INode := (specNums G H).map fun a => (a, symOf G a, some a)

/-- for every (ordered) pair of such numbers the label `(ord_G, ord_H)`, present iff not both 0 -/
def specEdges (G H : Mol) : List IEdge :=
  (specNums G H).flatMap fun a => (specNums G H).filterMap fun b =>
    if ordOf G a b = 0 ∧ ordOf H a b = 0 then none else some (a, b, (ordOf G a b, ordOf H a b))

/-- same elements (the two lists as sets) -/
def sameSet {α} [DecidableEq α] (A B : List α) : Bool :=
  A.all (fun x => decide (x ∈ B)) && B.all (fun x => decide (x ∈ A))

/-- `(a, b, l)` is an edge of the undirected graph with edge list `E` -/
def uedgeIn {β} [DecidableEq β] (E : List (Int × Int × β)) (e : Int × Int × β) : Bool :=
  decide (e ∈ E) || decide ((e.2.1, e.1, e.2.2) ∈ E)

/-- same undirected labelled edges -/
def sameEdges {β} [DecidableEq β] (A B : List (Int × Int × β)) : Bool :=
  A.all (uedgeIn B) && B.all (uedgeIn A)

/-- the executable specification: `I` has exactly the nodes and (undirected) edges of the spec -/
def specCheck (G H : Mol) (I : Its) : Bool :=
  sameSet I.nodes (specNodes G H) && sameEdges I.edges (specEdges G H)

/-! ### domain of the statement, decidable -/

def pairwiseB {α} (r : α → α → Bool) : List α → Bool
  | [] => true
  | x :: xs => xs.all (r x) && pairwiseB r xs

/-- node ids distinct (it is a graph), present map numbers `≥ 1` and pairwise distinct, at most
    one edge per unordered pair of nodes (it is a simple graph), end points are nodes, bond
    orders are not 0 -/
def domOk (G : Mol) : Bool :=
  pairwiseB (fun x y => x.1 != y.1) G.nodes &&
  (mapNums G).all (fun a => decide (1 ≤ a)) &&
  pairwiseB (fun a b => a != b) (mapNums G) &&
  pairwiseB (fun e f => !samePair e.1 e.2.1 f.1 f.2.1) G.edges &&
  G.edges.all (fun e => hasNode G e.1 && hasNode G e.2.1 && e.2.2 != 0)

/-! ### canonical forms for the wire (sets are compared as sorted lists) -/

def insertBy {α} (le : α → α → Bool) (x : α) : List α → List α
  | [] => [x]
  | y :: ys => if le x y then x :: y :: ys else y :: insertBy le x ys

def sortBy {α} (le : α → α → Bool) (l : List α) : List α := l.foldr (insertBy le) []

def canonNodes {σ} (ns : List (Int × σ × Option Int)) : List (Int × σ × Option Int) :=
  sortBy (fun x y => x.1 ≤ y.1) ns

def leLex : List Int → List Int → Bool
  | [], _ => true
  | _ :: _, [] => false
  | x :: xs, y :: ys => x < y || (x == y && leLex xs ys)

/-- edges as `(min, max, label)` sorted by `(min, max, key label)` -/
def canonEdges {β} (key : β → List Int) (es : List (Int × Int × β)) : List (Int × Int × β) :=
  sortBy (fun x y => leLex (x.1 :: x.2.1 :: key x.2.2) (y.1 :: y.2.1 :: key y.2.2))
    (es.map fun e => (min e.1 e.2.1, max e.1 e.2.1, e.2.2))

def canonIts (I : Its) : Its :=
  { nodes := canonNodes I.nodes, edges := canonEdges (fun l => [l.1, l.2]) I.edges }

end C09
