import FGVerif.Model.C14
/-!
  C15 — model of `ReactionProxy.get_next = split_its(Proxy.get_next())` (proxy.py:482-511,
  its.py `split_its`) and of the superposition `get_its` restricted to what C15 needs (two graphs on
  the same nodes whose atom map is `id + 1`); the reaction-centre shape check of a Diels-Alder
  sample (`daCentreOk`).  Bond orders are doubled integers: `(0,1) ↦ (0,2)`, `(2,1) ↦ (4,2)` ….
  No Mathlib.
-/
namespace C15
open C13 C14

/-- `graph.copy()`: nodes, then every edge re-added in `edges` order -/
def copyGraph (g : Graph) : Graph :=
  addEdgesFrom (addNodesFrom { multi := g.multi } g.nodes) g.edges

/-- `g[u][v][BOND_KEY] = b` on a simple graph (both directions share the data dict) -/
def setBond (g : Graph) (u v : Int) (l : Label) : Graph :=
  let upd := fun (row : Row) (w : Int) => row.map fun e => if e.1 == w then (e.1, e.2.map fun kd => (kd.1, l)) else e
  { g with adj := g.adj.map fun r =>
      if r.1 == u then (r.1, upd r.2 v) else if r.1 == v then (r.1, upd r.2 u) else r }

/-- `_set_rc_edge(g, u, v, b)` -/
def setRcEdge (g : Graph) (u v : Int) (o : Int) : Graph :=
  if o == 0 then g.removeEdge u v else setBond g u v (.s o)

/-- `split_its(graph)`: pair labels are split, scalar labels stay on both sides -/
def splitIts (x : Graph) : Graph × Graph :=
  x.edges.foldl (fun (gh : Graph × Graph) e =>
    match e.2.2.2 with
    | .p a b => (setRcEdge gh.1 e.1 e.2.1 a, setRcEdge gh.2 e.1 e.2.1 b)
    | _ => gh) (copyGraph x, copyGraph x)

/-- `ReactionProxy` sample from the expanded ITS pattern -/
def reaction (x : Graph) : Graph × Graph := splitIts x

/-- `build_graphs` under a restricting sampler that answers the k-th call with the single graph
    `graphs[c_k % len(graphs)]` (used to draw individual samples of a large enumeration) -/
def buildPath (cfg : Config) : Nat → Graph → List Nat → Except Err Graph
  | 0, _, _ => .error .fuel
  | f + 1, g, cs =>
    match nextGroupNode cfg g with
    | none => .ok g
    | some (anchor, a) =>
      match groupLabels cfg a with
      | [name] =>
        match lookup cfg name with
        | some grp =>
          if grp.name != name then .error .value
          else match cs with
            | [] => .error .fuel
            | c :: cs' =>
              match grp.graphs[c % grp.graphs.length]? with
              | some sg => buildPath cfg f (replaceNode g anchor sg.pattern sg.anchors) cs'
              | none => .error .runtime
        | none => .error .runtime
      | _ => .error .runtime

/-! ### superposition (`get_its`) for two graphs whose atom map is `id + 1` on both sides.
    ITS node = map number; `idx_map` is not modelled. -/

def orderOf : Label → Int
  | .s o => o
  | _ => 0

/-- `get_its(G, H)` under the assumption `aam = id + 1` on both sides and equal node sets:
    nodes of `G` in order under their map numbers; `G`'s edges with `(e_G, e_H or 0)`, then `H`'s
    edges that `G` lacks with `(0, e_H)` -/
def getIts (g h : Graph) : Graph :=
  let nodes := g.nodes.map fun p => (p.1 + 1, { symbol := p.2.symbol, aam := some (p.1 + 1) : NodeAttr })
  let r : Graph := { multi := false, nodes := nodes, adj := nodes.map fun n => (n.1, []) }
  let r := g.edges.foldl (fun r e =>
      if r.hasEdge (e.1 + 1) (e.2.1 + 1) then r
      else addEdgeKey r (e.1 + 1) (e.2.1 + 1) 0
            (.p (orderOf e.2.2.2) (if h.hasEdge e.1 e.2.1 then orderOf ((h.bond? e.1 e.2.1).getD .nil) else 0))) r
  h.edges.foldl (fun r e =>
      if g.hasEdge e.1 e.2.1 then r
      else addEdgeKey r (e.1 + 1) (e.2.1 + 1) 0 (.p 0 (orderOf e.2.2.2))) r

/-- scalar labels of non-ITS group patterns become pairs `(o, o)` -/
def liftLabel : Label → Label
  | .s o => .p o o
  | l => l

/-- the expanded ITS pattern "as an ITS graph": nodes named by map number `id + 1`, symbols and map
    numbers only, every label a pair -/
def liftNodes (x : Graph) : List (Int × NodeAttr) :=
  x.nodes.map fun p => (p.1 + 1, { symbol := p.2.symbol, aam := some (p.1 + 1) : NodeAttr })

/-- executable superposition check (abstract level): same nodes, and between any two nodes the
    label of the ITS is the lifted label of the pattern -/
def superpositionB (x : Graph) (its : Graph) : Bool :=
  its.nodes == liftNodes x && closedB its &&
  x.nodeIds.all fun a => x.nodeIds.all fun b =>
    labelsBetween its (a + 1) (b + 1) == (labelsBetween x a b).map liftLabel

/-! ### the two halves, label by label (direct check of `split_its` outputs) -/

/-- reactant-side labels of a bond with label `l` -/
def splitG : Label → List Label
  | .p a _ => if a = 0 then [] else [.s a]
  | l => [l]

/-- product-side labels of a bond with label `l` -/
def splitH : Label → List Label
  | .p _ b => if b = 0 then [] else [.s b]
  | l => [l]

/-- what a bond of a molecular half may carry: a scalar order ≠ 0 (no tuple label, no missing label) -/
def scalarNZ : Label → Bool
  | .s o => o != 0
  | _ => false

/-- one half `g` of a sample against the expanded pattern `x`: a closed simple graph whose every bond
    label is a non-zero scalar, and between any two pattern nodes EXACTLY the labels that side keeps
    of the pattern's labels there (`side = splitG` / `splitH`): no unformed / broken bond left behind
    under its tuple label, no bond without label, no extra bond, no missing bond.  Nothing here goes
    through `get_its`, `orderOf` or `getD`: the labels are compared as they are. -/
def halfB (side : Label → List Label) (x g : Graph) : Bool :=
  !g.multi && closedB g && g.edges.all (fun e => scalarNZ e.2.2.2) &&
  x.nodeIds.all fun a => x.nodeIds.all fun b =>
    labelsBetween g a b == (labelsBetween x a b).flatMap side

/-- both halves of a sample, directly against the model's split of the pattern's labels -/
def halvesB (x g h : Graph) : Bool := halfB splitG x g && halfB splitH x h

/-! ### balanced and mapped -/

/-- both halves have the pattern's nodes, its symbols, and `aam = id + 1` -/
def balancedMappedB (x g h : Graph) : Bool :=
  g.nodeIds == x.nodeIds && h.nodeIds == x.nodeIds &&
  g.nodes.map (·.2.symbol) == x.nodes.map (·.2.symbol) &&
  h.nodes.map (·.2.symbol) == x.nodes.map (·.2.symbol) &&
  g.nodes.all (fun p => p.2.aam == some (p.1 + 1)) && h.nodes.all (fun p => p.2.aam == some (p.1 + 1))

/-! ### the Diels-Alder reaction centre -/

/-- largest explicit valence a symbol may show in a sample (specification data, not a table of the
    code): main-group maxima as RDKit's valence model allows them for neutral atoms -/
def maxValence (sym : String) : Int :=
  match sym with
  | "H" => 1 | "B" => 3 | "C" => 4 | "c" => 4 | "N" => 3 | "n" => 3 | "O" => 2 | "o" => 2
  | "F" => 1 | "Si" => 4 | "P" => 5 | "S" => 6 | "s" => 6 | "Cl" => 1 | "Br" => 1 | "I" => 1
  | "Sn" => 4 | "Li" => 1 | "Mg" => 2 | "Se" => 6
  | _ => 0

/-- reaction-centre edges of an ITS graph: pair labels with different halves -/
def rcEdges (its : Graph) : List (Int × Int × Int × Int) :=
  its.edges.filterMap fun e =>
    match e.2.2.2 with
    | .p a b => if a != b then some (e.1, e.2.1, a, b) else none
    | _ => none

def dedupInts (l : List Int) : List Int := l.foldl (fun acc x => if acc.contains x then acc else acc ++ [x]) []

def countLabel (es : List (Int × Int × Int × Int)) (a b : Int) : Nat :=
  (es.filter fun e => e.2.2.1 == a && e.2.2.2 == b).length

/-- nodes reachable from `start` over the given edges in at most `k` rounds -/
def reach (es : List (Int × Int × Int × Int)) : Nat → List Int → List Int
  | 0, seen => seen
  | k + 1, seen =>
      reach es k (dedupInts (seen ++ es.filterMap fun e =>
        if seen.contains e.1 then some e.2.1 else if seen.contains e.2.1 then some e.1 else none))

/-- doubled explicit valence from a list of doubled orders: aromatic bonds (order 1.5, doubled 3)
    are counted as in a Kekulé structure — `k > 0` aromatic bonds contribute `k + 1` — all other
    bonds with their order -/
def valenceOf (orders : List Int) : Int :=
  let k : Int := ((orders.filter (· == 3)).length : Int)
  (orders.filter (· != 3)).foldl (· + ·) 0 + (if k > 0 then 2 * k + 2 else 0)

/-- doubled explicit valence at node `n`, reactant side / product side, of an ITS graph -/
def valence2 (its : Graph) (n : Int) : Int × Int :=
  let sides := (its.edgesOf n).map fun e =>
    match e.2.2.2 with
    | .p a b => (a, b)
    | .s o => (o, o)
    | .nil => (0, 0)
  (valenceOf (sides.map (·.1)), valenceOf (sides.map (·.2)))

/-- the reaction centre of the sample is a single 6-cycle of carbons, two bonds form (0→1), one
    single bond becomes double, three bonds drop by one order (2→1, or once 3→2), and no atom
    exceeds its explicit valence on either side.  `its` is the expanded ITS pattern of the sample. -/
def daCentreOk (its : Graph) : Bool :=
  let es := rcEdges its
  let ns := dedupInts (es.flatMap fun e => [e.1, e.2.1])
  es.length == 6 && ns.length == 6 &&
  ns.all (fun n => (es.filter fun e => e.1 == n || e.2.1 == n).length == 2) &&
  (match ns with | n :: _ => (reach es 6 [n]).length == 6 | [] => false) &&
  ns.all (fun n => its.symbol? n == some "C") &&
  countLabel es 0 2 == 2 && countLabel es 2 4 == 1 &&
  ((countLabel es 4 2 == 3 && countLabel es 6 4 == 0) || (countLabel es 4 2 == 2 && countLabel es 6 4 == 1)) &&
  its.nodes.all fun p =>
    let v := valence2 its p.1
    let m := 2 * maxValence (p.2.symbol.getD "")
    v.1 ≤ m && v.2 ≤ m

end C15
