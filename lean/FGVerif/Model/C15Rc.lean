import FGVerif.Model.C15
/-!
  C15 — the reaction centre of an expanded ITS pattern, as a structural (not enumerated) statement.

  Executable definitions for `Proofs/C15Rc.lean` / `Proofs/C15RcDA.lean`:

  * `changing`        a bond label that belongs to the reaction centre: a pair `(a, b)` with `a ≠ b`
  * `cycPairs c`      the consecutive pairs of a cyclic node sequence `c`
  * `daCycleB g c`    executable form of `C15.DACycle g c` (Proofs/C15Rc.lean): `c` lists six distinct carbons,
                      consecutive ones are joined by exactly one bond, the six labels are the Diels-Alder
                      multiset, and NO other pair of nodes of `g` carries a changing label
  * `findCycle g`     a candidate for `c`, read off the changing bonds (a walk; nothing is trusted about it)
  * `noChanging g`    no adjacency entry of `g` carries a changing label (a non-ITS pattern)
  * `safeNodesB`, `safeCfgB`, `safeSet`   the groups from which no changing bond can ever arrive: every graph of
                      such a group is `noChanging` and refers only to such groups (`safeSet`: greatest such set)
  * `rcGoodB`         a working graph whose reaction centre is complete: a DA cycle, and every label node left
                      refers to a safe group
  * `frontierB k`     along every branch of `replace_next_node` the graph becomes `rcGoodB` within `k` steps
                      (the few substitutions that assemble the reaction centre are evaluated; what follows is
                      covered by the general theorem `C15.good_preserved`)
  Bond orders are doubled integers as everywhere in the C15 model.  No Mathlib.
-/
namespace C15
open C13 C14

/-- a label of the reaction centre: a pair with different components -/
def changing : Label → Bool
  | .p a b => a != b
  | _ => false

/-- consecutive pairs of the cyclic sequence `c` (the last pair closes the cycle) -/
def cycPairs (c : List Int) : List (Int × Int) := c.zip (c.drop 1 ++ c.take 1)

/-- `{a, b}` is a pair of consecutive cycle nodes -/
def cycEdge (c : List Int) (a b : Int) : Bool :=
  (cycPairs c).any fun p => (p.1 == a && p.2 == b) || (p.1 == b && p.2 == a)

/-- the two Diels-Alder label multisets (doubled orders): two bonds form, one single bond becomes double, three
    bonds drop by one order — `2 → 1` three times, or twice and once `3 → 2` (alkyne dienophile) -/
def daLabelsA : List Label := [.p 0 2, .p 0 2, .p 2 4, .p 4 2, .p 4 2, .p 4 2]
def daLabelsB : List Label := [.p 0 2, .p 0 2, .p 2 4, .p 4 2, .p 4 2, .p 6 4]

def daLabels (ls : List Label) : Bool := ls.isPerm daLabelsA || ls.isPerm daLabelsB

/-- node `n` exists and (every entry named `n`) is a carbon -/
def isCarbonAt (g : Graph) (n : Int) : Bool :=
  g.nodeIds.contains n && g.nodes.all fun p => p.1 != n || p.2.symbol == some "C"

def pairwiseNe : List Int → Bool
  | [] => true
  | x :: xs => !xs.contains x && pairwiseNe xs

/-- the labels along the cycle, in cycle order -/
def cycleLabels (g : Graph) (c : List Int) : List Label :=
  (cycPairs c).flatMap fun p => labelsBetween g p.1 p.2

/-- executable form of `DACycle` (for well-formed `g`) -/
def daCycleB (g : Graph) (c : List Int) : Bool :=
  c.length == 6 && pairwiseNe c && c.all (isCarbonAt g) &&
  (cycPairs c).all (fun p => (labelsBetween g p.1 p.2).length == 1) &&
  daLabels (cycleLabels g c) &&
  g.nodeIds.all fun a => g.nodeIds.all fun b => (labelsBetween g a b).all fun l => !changing l || cycEdge c a b

/-- the other ends of the changing bonds at `n` -/
def otherEnds (es : List (Int × Int × Int × Int)) (n : Int) : List Int :=
  es.filterMap fun e => if e.1 == n then some e.2.1 else if e.2.1 == n then some e.1 else none

/-- walk along the changing bonds, never straight back -/
def walk (es : List (Int × Int × Int × Int)) : Nat → Int → Int → List Int
  | 0, _, _ => []
  | k + 1, prev, cur =>
    cur :: match (otherEnds es cur).filter (· != prev) with
      | nxt :: _ => walk es k cur nxt
      | [] => []

/-- candidate cycle: walk six steps from the first changing bond -/
def findCycle (g : Graph) : List Int :=
  match rcEdges g with
  | e :: _ => walk (rcEdges g) 6 e.2.1 e.1
  | [] => []

/-- no adjacency entry carries a changing label -/
def noChanging (g : Graph) : Bool :=
  g.adj.all fun r => r.2.all fun e => e.2.all fun kd => !changing kd.2

/-- every configured group label on a label node of `g` is in `S` -/
def safeNodesB (cfg : Config) (S : List String) (g : Graph) : Bool :=
  g.nodes.all fun p => (groupLabels cfg p.2).all fun l => S.contains l

/-- every graph of every group named in `S` is free of changing bonds and refers only to groups in `S` -/
def safeCfgB (cfg : Config) (S : List String) : Bool :=
  cfg.all fun grp => !S.contains grp.key || grp.graphs.all fun pg =>
    noChanging pg.pattern && safeNodesB cfg S pg.pattern

/-- one refinement round: drop the groups that have a graph with a changing bond or a reference outside `S` -/
def refineSafe (cfg : Config) (S : List String) : List String :=
  S.filter fun k => cfg.all fun grp => grp.key != k || grp.graphs.all fun pg =>
    noChanging pg.pattern && safeNodesB cfg S pg.pattern

def safeIter (cfg : Config) : Nat → List String → List String
  | 0, S => S
  | n + 1, S => let S' := refineSafe cfg S; if S'.length == S.length then S else safeIter cfg n S'

/-- the greatest safe set (a candidate: `safeCfgB cfg (safeSet cfg)` is checked, not assumed) -/
def safeSet (cfg : Config) : List String := safeIter cfg cfg.length (cfg.map (·.key))

/-- the reaction centre of the working graph is complete -/
def rcGoodB (cfg : Config) (S : List String) (g : Graph) : Bool :=
  daCycleB g (findCycle g) && safeNodesB cfg S g

/-- along every branch the working graph is `rcGoodB` after at most `k` replacements -/
def frontierB (cfg : Config) (S : List String) : Nat → Graph → Bool
  | 0, g => rcGoodB cfg S g
  | k + 1, g => rcGoodB cfg S g ||
      match replaceNextNode cfg g with
      | .ok (some gs) => gs.all (frontierB cfg S k)
      | _ => false

end C15
