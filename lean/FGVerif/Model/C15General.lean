import FGVerif.Model.C15
import FGVerif.Model.C10
/-!
  C15 — adapter between the `Graph` representation of C13–C15 and the `Gr` representation of the
  general `get_its` / `split_its` models (`Model/C09.lean`, `Model/C10.lean`, the ones validated
  against `fgutils.its`): a graph enters the general models as what the harness of C09/C10 extracts
  from a networkx graph — its node list `(id, symbol, aam?)` in node order and its edge list in
  `edges(data=True)` order.  No Mathlib.
-/
namespace C15
open C09

/-- a bond label as C10 sees it (a missing label has no counterpart) -/
def labOf : Label → Option C10.Lab
  | .s o => some (.s o)
  | .p a b => some (.p a b)
  | .nil => none

def nodeOf (p : Int × NodeAttr) : Int × String × Option Int := (p.1, p.2.symbol.getD "", p.2.aam)

/-- an (expanded) ITS pattern as the general `split_its` model sees it -/
def toGr (x : Graph) : Gr String C10.Lab :=
  { nodes := x.nodes.map nodeOf
    edges := x.edges.filterMap fun e => (labOf e.2.2.2).map fun l => (e.1, e.2.1, l) }

def scalarOf : Label → Option Int
  | .s o => some o
  | _ => none

def pairOfL : Label → Option (Int × Int)
  | .p a b => some (a, b)
  | _ => none

/-- a molecular graph (scalar labels) as the general `get_its` model sees it -/
def toMolG (g : Graph) : Mol :=
  { nodes := g.nodes.map nodeOf
    edges := g.edges.filterMap fun e => (scalarOf e.2.2.2).map fun o => (e.1, e.2.1, o) }

/-- an ITS graph built on `Graph` (pair labels) as a value of the type the general `get_its` returns -/
def itsOfGraph (j : Graph) : Its :=
  { nodes := j.nodes.map fun p => (p.1, p.2.symbol, p.2.aam)
    edges := j.edges.filterMap fun e => (pairOfL e.2.2.2).map fun t => (e.1, e.2.1, t) }

/-- the expanded pattern "as an ITS graph" in the general representation: every node named by its map
    number `id + 1` with its symbol, every label a pair (a scalar `o` reads `(o, o)`) -/
def liftedIts (x : Graph) : Its :=
  { nodes := x.nodes.map fun p => (p.1 + 1, some (p.2.symbol.getD ""), some (p.1 + 1))
    edges := x.edges.filterMap fun e => ((labOf e.2.2.2).map C10.pairOf).map fun t => (e.1 + 1, e.2.1 + 1, t) }

/-- executable superposition check against the GENERAL models: `get_its` (C09) of the two halves `g`, `h`
    is the expanded pattern `x` named by map number (as sets of nodes and undirected labelled edges) -/
def superGeneralB (x g h : Graph) : Bool := C10.sameIts (C09.getIts (toMolG g) (toMolG h)) (liftedIts x)

/-- the same with the general `split_its` (C10) applied to the pattern itself: `get_its(*split_its(x))` -/
def resuperGeneralB (x : Graph) : Bool :=
  match C10.resuper (toGr x) with
  | some j => C10.sameIts j (liftedIts x)
  | none => false

/-- decidable hypotheses of `C15.superposition_general` on a sample -/
def generalOk (x : Graph) : Bool :=
  C13.wf x && !x.multi &&
  x.edges.all (fun e => match e.2.2.2 with
    | .s o => o != 0 | .p a b => !(a == 0 && b == 0) | .nil => false) &&
  x.nodes.all (fun p => decide (0 ≤ p.1) && p.2.aam == some (p.1 + 1) && p.2.symbol.isSome)

end C15
