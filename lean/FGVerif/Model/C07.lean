import FGVerif.Model.Subgraph
/-!
  C07 — model of the group hierarchy of `fgutils/fgconfig.py`:
  `is_subgroup`, `FGTreeNode.order_id / add_child`, `sort_by_pattern_len`, `search_parents`,
  `build_config_tree_from_list`.  No Mathlib.

  Part 1 is an order-theoretic core that knows nothing about chemistry: items, a Boolean relation
  `sub parent child` (the answer of `is_subgroup`) and a Boolean comparison `klt a b`
  ("key a < key b", the key being `order_id`).  After `sortByKey` an item *is* its position in
  the sorted list, so the tree is built over positions `0 … n-1` with the two relations
  `R i j = sub s[i] s[j]` and `K i j = klt s[i] s[j]`.

  Python objects / sets:
  * a `FGTreeNode` is a position; its `parents` / `children` lists are lists of positions;
  * `parents = set()` in `search_parents` is a duplicate-free list; the order in which Python
    iterates the final `list(parents)` (a set of objects hashed by address) is *not* determined
    by the program: it is the explicit parameter `Env.order` (any permutation of its argument,
    possibly a different one at every insertion).

  Part 2 is the chemistry instance (patterns are `Graph`s, `sub` is computed by the matcher model
  `Sub.mapSubgraphToGraph`), Part 3 the executable specification (Hasse diagram of the *true*
  embedding order, computed by plain enumeration of injective maps, independent of the matcher).
-/
namespace C07

/-! ## Part 1 — order-theoretic core -/

/-- lexicographic `<` on tuples of naturals; the real key is
    `(pattern_len, |V|, |E|, pattern_str)`, the string entering as its code points -/
def lexLt : List Nat → List Nat → Bool
  | [], [] => false
  | [], _ :: _ => true
  | _ :: _, [] => false
  | x :: xs, y :: ys => x < y || (x == y && lexLt xs ys)

/-- the two relations the algorithm consults -/
structure Cfg (α : Type) where
  /-- `is_subgroup(parent, child, mapper)` -/
  sub : α → α → Bool
  /-- `key a < key b` for the sort key `order_id` -/
  klt : α → α → Bool

/-- a configuration given by a key function into a type with a (Boolean) strict order -/
def Cfg.ofKey {α κ : Type} (sub : α → α → Bool) (key : α → κ) (lt : κ → κ → Bool) : Cfg α :=
  { sub := sub, klt := fun a b => lt (key a) (key b) }

/-- one step of a stable ascending insertion sort: `x` goes in front of the first element whose
    key is not smaller (so equal keys keep their input order, as Python's `sorted` does) -/
def insertAsc {α} (klt : α → α → Bool) (x : α) : List α → List α
  | [] => [x]
  | y :: ys => if klt y x then y :: insertAsc klt x ys else x :: y :: ys

/-- `sort_by_pattern_len(configs)`: `sorted(configs, key=…)` (stable) -/
def sortByKey {α} (klt : α → α → Bool) (l : List α) : List α := l.foldr (insertAsc klt) []

/-- one step of a stable *descending* sort (`sorted(…, reverse=True)` keeps equal keys in input order) -/
def insertDesc {α} (klt : α → α → Bool) (x : α) : List α → List α
  | [] => [x]
  | y :: ys => if klt x y then y :: insertDesc klt x ys else x :: y :: ys

/-- `sorted(xs, key=lambda x: x.order_id(), reverse=True)` -/
def sortDesc {α} (klt : α → α → Bool) (l : List α) : List α := l.foldr (insertDesc klt) []

/-- an `FGTreeNode` without its config (the config of node `i` is item `i` of the sorted list) -/
structure Node where
  parents : List Nat := []
  children : List Nat := []
deriving Repr, DecidableEq, Inhabited

/-- the mutable state of `build_config_tree_from_list`: all nodes created so far and `roots` -/
structure State where
  nodes : List Node := []
  roots : List Nat := []
deriving Repr, DecidableEq, Inhabited

/-- `nodes[i].children` (empty for a position that does not exist) -/
def ch (nodes : List Node) (i : Nat) : List Nat :=
  match nodes[i]? with
  | some n => n.children
  | none => []

/-- `nodes[i].parents` -/
def pa (nodes : List Node) (i : Nat) : List Nat :=
  match nodes[i]? with
  | some n => n.parents
  | none => []

/-- `set.add` on a duplicate-free list -/
def addSet (x : Nat) (s : List Nat) : List Nat := if s.contains x then s else s ++ [x]

/-- `set.update` -/
def unionSet (s t : List Nat) : List Nat := t.foldl (fun acc x => addSet x acc) s

/-- `search_parents(roots, child, mapper)`; `[]` stands for `None`.  `c` is the position of the
    child.  Recursion on fuel; the depth of the DAG is at most the number of nodes. -/
def searchParents (R : Nat → Nat → Bool) (nodes : List Node) (c : Nat) : Nat → List Nat → List Nat
  | 0, _ => []
  | fuel + 1, roots =>
      roots.foldl (fun parents r =>
        if R r c then
          let ps := searchParents R nodes c fuel (ch nodes r)
          if ps.isEmpty then addSet r parents else unionSet parents ps
        else parents) []

/-- update position `i` of a list -/
def updAt {β} (f : β → β) : Nat → List β → List β
  | _, [] => []
  | 0, x :: xs => f x :: xs
  | i + 1, x :: xs => x :: updAt f i xs

/-- `parent.add_child(child)` for parent position `p` and child position `k`:
    `child.parents.append(self); self.children.append(child)`, then both lists *of the parent*
    are re-sorted by key, descending. -/
def addChild (K : Nat → Nat → Bool) (nodes : List Node) (p k : Nat) : List Node :=
  let nodes := updAt (fun n => { n with parents := n.parents ++ [p] }) k nodes
  updAt (fun n => { parents := sortDesc K n.parents, children := sortDesc K (n.children ++ [k]) }) p nodes

/-- everything the interpreter is free to choose: the iteration order of the final `parents` set
    at insertion number `k` -/
structure Env where
  order : Nat → List Nat → List Nat

/-- body of the loop of `build_config_tree_from_list` for the next config (position `k`) -/
def step (R K : Nat → Nat → Bool) (env : Env) (st : State) : State :=
  let k := st.nodes.length
  let ps := searchParents R st.nodes k (k + 1) st.roots
  let nodes := st.nodes ++ [Node.mk [] []]
  if ps.isEmpty then { nodes := nodes, roots := st.roots ++ [k] }
  else { nodes := (env.order k ps).foldl (fun ns p => addChild K ns p k) nodes, roots := st.roots }

/-- insert positions `0 … n-1` in order -/
def buildIdx (R K : Nat → Nat → Bool) (env : Env) : Nat → State
  | 0 => State.mk [] []
  | n + 1 => step R K env (buildIdx R K env n)

/-- a relation on items seen on the positions of a list (`false` outside the list, and on equal
    positions: the code never compares a node with itself) -/
def relOn {α} (r : α → α → Bool) (s : List α) (i j : Nat) : Bool :=
  i != j && (match s[i]?, s[j]? with
    | some a, some b => r a b
    | _, _ => false)

/-- the result: the sorted item list (item `i` is the config of node `i`) and the DAG -/
structure Tree (α : Type) where
  items : List α
  st : State

/-- `build_config_tree_from_list(config_list, mapper)` -/
def buildTree {α} (c : Cfg α) (env : Env) (l : List α) : Tree α :=
  let s := sortByKey c.klt l
  { items := s, st := buildIdx (relOn c.sub s) (relOn c.klt s) env s.length }

/-! ### the same algorithm when `is_subgroup` may raise (`none` = AssertionError) -/

def searchParentsE (R : Nat → Nat → Option Bool) (nodes : List Node) (c : Nat) :
    Nat → List Nat → Option (List Nat)
  | 0, _ => some []
  | fuel + 1, roots =>
      roots.foldlM (fun parents r => do
        if (← R r c) then
          let ps ← searchParentsE R nodes c fuel (ch nodes r)
          pure (if ps.isEmpty then addSet r parents else unionSet parents ps)
        else pure parents) []

def stepE (R : Nat → Nat → Option Bool) (K : Nat → Nat → Bool) (env : Env) (st : State) : Option State := do
  let k := st.nodes.length
  let ps ← searchParentsE R st.nodes k (k + 1) st.roots
  let nodes := st.nodes ++ [Node.mk [] []]
  if ps.isEmpty then pure { nodes := nodes, roots := st.roots ++ [k] }
  else pure { nodes := (env.order k ps).foldl (fun ns p => addChild K ns p k) nodes, roots := st.roots }

def buildIdxE (R : Nat → Nat → Option Bool) (K : Nat → Nat → Bool) (env : Env) : Nat → Option State
  | 0 => some (State.mk [] [])
  | n + 1 => do stepE R K env (← buildIdxE R K env n)

def relOnE {α} (r : α → α → Option Bool) (s : List α) (i j : Nat) : Option Bool :=
  if i == j then some false
  else match s[i]?, s[j]? with
    | some a, some b => r a b
    | _, _ => some false

def buildTreeE {α} (subE : α → α → Option Bool) (klt : α → α → Bool) (env : Env) (l : List α) :
    Option (Tree α) := do
  let s := sortByKey klt l
  let st ← buildIdxE (relOnE subE s) (relOn klt s) env s.length
  pure { items := s, st := st }

/-! ### concrete iteration orders for the driver -/

/-- a family of permutations indexed by a seed: 0 = as collected, 1 = reversed, otherwise sorted
    by a seed-dependent scramble of (position, insertion number) -/
def Env.ofSeed (seed : Nat) : Env :=
  { order := fun k l =>
      if seed == 0 then l
      else if seed == 1 then l.reverse
      else
        let h := fun (i : Nat) => ((i + 1) * (2 * seed + 7919) + k * 104729 + seed * seed) % 1009
        sortByKey (fun a b => h a < h b) l }

/-! ### observable relations of a tree -/

/-- all `(parent, child)` position pairs -/
def State.links (st : State) : List (Nat × Nat) :=
  (List.range st.nodes.length).flatMap fun i => (ch st.nodes i).map fun j => (i, j)

/-- the same links read off the `parents` lists -/
def State.linksByParents (st : State) : List (Nat × Nat) :=
  (List.range st.nodes.length).flatMap fun j => (pa st.nodes j).map fun i => (i, j)

/-! ## Part 2 — the chemistry instance -/

/-- an `FGConfig` as far as the hierarchy looks at it -/
structure FGConfig where
  name : String
  patternStr : String
  pattern : Graph
  /-- `config.anti_pattern` (already parsed; order as stored by the constructor) -/
  antiPatterns : List Graph := []
deriving Repr, Inhabited

/-- `FGConfig.pattern_len`: nodes whose symbol is not in `len_exclude_nodes = ["R"]` -/
def patternLen (g : Graph) : Nat := (g.nodes.filter fun n => n.2.symbol != some "R").length

/-- `pattern.number_of_edges()` -/
def numberOfEdges (g : Graph) : Nat := g.edges.length

/-- `order_id()` = `(pattern_len, len(pattern), number_of_edges, pattern_str)` as a list of
    naturals (Python compares strings by code point, shorter prefix first — as `lexLt` does) -/
def FGConfig.key (c : FGConfig) : List Nat :=
  [patternLen c.pattern, c.pattern.numberOfNodes, numberOfEdges c.pattern] ++ c.patternStr.toList.map Char.toNat

/-- `is_subgroup(parent, child, mapper)`; `none` = the "matches in both directions" assertion -/
def isSubgroupE (m : Perm.Mapper) (parent child : FGConfig) : Option Bool :=
  let p2c := Sub.mapSubgraphToGraph child.pattern parent.pattern m
  let c2p := Sub.mapSubgraphToGraph parent.pattern child.pattern m
  if p2c then
    if c2p then none
    else some (!(parent.antiPatterns.any fun ap => Sub.mapSubgraphToGraph child.pattern ap m))
  else some false

/-- the Boolean the hierarchy uses when the assertion does not fire -/
def isSubgroup (m : Perm.Mapper) (parent child : FGConfig) : Bool :=
  Sub.mapSubgraphToGraph child.pattern parent.pattern m &&
  !(Sub.mapSubgraphToGraph parent.pattern child.pattern m) &&
  !(parent.antiPatterns.any fun ap => Sub.mapSubgraphToGraph child.pattern ap m)

def fgKlt (a b : FGConfig) : Bool := lexLt a.key b.key

def fgCfg (m : Perm.Mapper) : Cfg FGConfig := Cfg.ofKey (isSubgroup m) FGConfig.key lexLt

/-- `build_config_tree_from_list(config_list, mapper)` on real configs (`none` = AssertionError) -/
def buildFG (m : Perm.Mapper) (env : Env) (l : List FGConfig) : Option (Tree FGConfig) :=
  buildTreeE (isSubgroupE m) fgKlt env l

/-! ## Part 3 — executable specification: Hasse diagram of the true embedding order -/

/-- symbol admission of `PermutationMapper(wildcard, ignore_case)` for one pattern symbol and one
    host symbol, written directly (not through the permutation model) -/
def admits (m : Perm.Mapper) (ps hs : String) : Bool :=
  let lower := fun (s : String) => if m.ignoreCase then s.toLower else s
  m.wildcard.map lower == some (lower ps) || lower ps == lower hs

/-- is there an injective, symbol-admitted, bond-preserving map of the pattern nodes `todo` into
    `H` extending the partial assignment `asg` (pairs pattern node ↦ host node)? -/
def extendEmb (m : Perm.Mapper) (P H : Graph) : List Int → List (Int × Int) → Bool
  | [], _ => true
  | p :: todo, asg =>
      H.nodeIds.any fun h =>
        !(asg.any (·.2 == h)) &&
        admits m ((P.symbol? p).getD "") ((H.symbol? h).getD "") &&
        (asg.all fun qh => match P.bond? p qh.1 with
          | some b => H.bond? h qh.2 == some b
          | none => true) &&
        extendEmb m P H todo ((p, h) :: asg)

/-- the pattern `P` embeds into `H` (true embedding order; exhaustive enumeration) -/
def embeds (m : Perm.Mapper) (P H : Graph) : Bool := extendEmb m P H P.nodeIds []

/-- "A is more general than B": A embeds into B, B does not embed into A, and no anti-pattern of
    A embeds into B -/
def trueSub (m : Perm.Mapper) (a b : FGConfig) : Bool :=
  embeds m a.pattern b.pattern && !(embeds m b.pattern a.pattern) &&
  !(a.antiPatterns.any fun ap => embeds m ap b.pattern)

/-- covering pairs of a relation given on positions `0 … n-1` -/
def coverPairs (n : Nat) (r : Nat → Nat → Bool) : List (Nat × Nat) :=
  (List.range n).flatMap fun i => (List.range n).filterMap fun j =>
    if r i j && !((List.range n).any fun z => r i z && r z j) then some (i, j) else none

def minimalIdx (n : Nat) (r : Nat → Nat → Bool) : List Nat :=
  (List.range n).filter fun j => !((List.range n).any fun i => r i j)

/-- insertion sort without duplicates: canonical form of a set of pairs -/
def sortPairsN (l : List (Nat × Nat)) : List (Nat × Nat) :=
  let le := fun (a b : Nat × Nat) => a.1 < b.1 || (a.1 == b.1 && a.2 ≤ b.2)
  let rec ins (x : Nat × Nat) : List (Nat × Nat) → List (Nat × Nat)
    | [] => [x]
    | y :: ys => if le x y then (if x == y then y :: ys else x :: y :: ys) else y :: ins x ys
  l.foldr ins []

def sortNats (l : List Nat) : List Nat :=
  let rec ins (x : Nat) : List Nat → List Nat
    | [] => [x]
    | y :: ys => if x ≤ y then (if x == y then y :: ys else x :: y :: ys) else y :: ins x ys
  l.foldr ins []

/-- everything reachable from `front` in at least one step (`acc` = reached so far) -/
def reachFrom (succs : Nat → List Nat) : Nat → List Nat → List Nat → List Nat
  | 0, _, acc => acc
  | f + 1, front, acc =>
      let nxt := sortNats ((front.flatMap succs).filter fun x => !acc.contains x)
      if nxt.isEmpty then acc else reachFrom succs f nxt (acc ++ nxt)

/-- no position reaches itself along the links -/
def acyclicLinks (n : Nat) (links : List (Nat × Nat)) : Bool :=
  let succs := fun (i : Nat) => (links.filter (·.1 == i)).map (·.2)
  (List.range n).all fun i => !((reachFrom succs (n + 1) [i] []).contains i)

/-- The specification as a checker on an observed hierarchy (sets of links and roots over the
    positions of the *given* list): links = covering pairs of the relation, roots = minimal
    positions, no position its own ancestor. -/
def specCheck (n : Nat) (r : Nat → Nat → Bool) (links : List (Nat × Nat)) (roots : List Nat) : Bool :=
  sortPairsN links == sortPairsN (coverPairs n r) &&
  sortNats roots == sortNats (minimalIdx n r) &&
  acyclicLinks n links

/-- is the relation a strict partial order on `0 … n-1` whose pairs increase the key? -/
def hypsOk (n : Nat) (r k : Nat → Nat → Bool) : Bool :=
  (List.range n).all fun i =>
    !(r i i) &&
    (List.range n).all fun j =>
      (!(r i j) || k i j) &&
      (List.range n).all fun z => !(r i j && r j z) || r i z

end C07
