import FGVerif.Model.Subgraph
/-!
  C03 / C04 — specification of "embedding" (declarative `Prop`s and executable checkers).
  No Mathlib.

  * `IsEmbeddingOn m P H D f`   declarative: `f` is injective on the pattern nodes `D`, lands in
    the host, respects the mapper's single-symbol rule, and sends every pattern bond that leaves
    a node of `D` onto a host bond of equal label.  `IsEmbedding` = on all pattern nodes.
  * `IsEmbeddingPairs m P H pa a M`  the same statement about a pair list `M` (host, pattern) as
    `map_anchored_subgraph` returns it; `embeddingPairs_embedding` turns it into a function that
    is an embedding of the whole component of the anchor `pa`, with `f pa = a`.
  * `isEmbedding`  executable checker, `isEmbedding_iff : isEmbedding … = true ↔ IsEmbeddingPairs …`
  * `existsEmbedding`  the oracle: pruned backtracking search over injective maps with the anchor
    pair fixed, whose answer is *re-checked by `isEmbedding`*, so that
    `existsEmbedding_sound : existsEmbedding … = true → ∃ f, anchored embedding` needs no trust in
    the search (its completeness is tested against brute force / networkx by the harness).
  * `WF`/`wfB`  well-formed simple graph, `IsForest`/`isForestB` acyclicity, each with `…_sound`.
-/
namespace C03
open Perm Sub

/-- symbol of a node as the matcher reads it -/
def sym (g : Graph) (n : Int) : String := (g.symbol? n).getD ""

/-- the mapper's single-symbol rule, asked exactly as `map_anchored_subgraph` asks it for the
    anchor pair: `mapper.permute([psym], [sym]) == [[(0, 0)]]` -/
def admits (m : Mapper) (ps hs : String) : Bool := m.permute [ps] [hs] == [[0]]

/-! ### declarative specification -/

/-- `c` can be reached from `a` by a walk none of whose nodes is in `avoid` -/
inductive Reach (g : Graph) (avoid : List Int) : Int → Int → Prop
  | refl {a : Int} : a ∉ avoid → Reach g avoid a a
  | step {a b c : Int} : a ∉ avoid → b ∈ g.neighbors a → Reach g avoid b c → Reach g avoid a c

/-- `f` embeds the part `D` of the pattern `P` into the host `H` -/
structure IsEmbeddingOn (m : Mapper) (P H : Graph) (D : Int → Prop) (f : Int → Int) : Prop where
  inj : ∀ p q, D p → D q → f p = f q → p = q
  range : ∀ p, D p → f p ∈ H.nodeIds
  admitted : ∀ p, D p → admits m (sym P p) (sym H (f p)) = true
  bond : ∀ p q, D p → q ∈ P.neighbors p →
    f q ∈ H.neighbors (f p) ∧ H.bond? (f p) (f q) = P.bond? p q

/-- embedding of the whole pattern -/
def IsEmbedding (m : Mapper) (P H : Graph) (f : Int → Int) : Prop :=
  IsEmbeddingOn m P H (· ∈ P.nodeIds) f

/-- embedding of the connected component of the pattern anchor with the anchor pair fixed -/
def IsAnchoredEmbedding (m : Mapper) (P H : Graph) (pa a : Int) (f : Int → Int) : Prop :=
  IsEmbeddingOn m P H (Reach P [] pa) f ∧ f pa = a

/-- the statement of C04 about a returned pair list (pairs are `(host node, pattern node)`) -/
structure IsEmbeddingPairs (m : Mapper) (P H : Graph) (pa a : Int) (M : List (Int × Int)) : Prop where
  anchor : (a, pa) ∈ M
  nodes : ∀ x ∈ M, x.1 ∈ H.nodeIds ∧ x.2 ∈ P.nodeIds
  admitted : ∀ x ∈ M, admits m (sym P x.2) (sym H x.1) = true
  functional : ∀ x ∈ M, ∀ y ∈ M, x.2 = y.2 → x.1 = y.1
  injective : ∀ x ∈ M, ∀ y ∈ M, x.1 = y.1 → x.2 = y.2
  bond : ∀ x ∈ M, ∀ q ∈ P.neighbors x.2,
    ∃ y ∈ M, y.2 = q ∧ y.1 ∈ H.neighbors x.1 ∧ H.bond? x.1 y.1 = P.bond? x.2 q

/-- well-formed simple graph as networkx hands it over: node ids distinct, one adjacency row
    per node (in node order), neighbour lists duplicate-free, inside the node set, without
    self-loops, and symmetric with equal labels -/
structure WF (g : Graph) : Prop where
  nodup : g.nodeIds.Nodup
  rows : g.adj.map (·.1) = g.nodeIds
  nbrNodup : ∀ u, (g.neighbors u).Nodup
  nbrNode : ∀ u v, v ∈ g.neighbors u → u ∈ g.nodeIds ∧ v ∈ g.nodeIds
  noLoop : ∀ u, u ∉ g.neighbors u
  symm : ∀ u v, v ∈ g.neighbors u → u ∈ g.neighbors v ∧ g.bond? v u = g.bond? u v

/-- acyclic: deleting any node separates its neighbours from each other -/
def IsForest (g : Graph) : Prop :=
  ∀ v a b x, a ∈ g.neighbors v → b ∈ g.neighbors v → a ≠ b →
    Reach g [v] a x → Reach g [v] b x → False

/-! ### executable checkers -/

/-- the pair list is (the graph of) an embedding of the anchor's component containing the anchor
    pair — see `IsEmbeddingPairs` -/
def isEmbedding (m : Mapper) (P H : Graph) (pa a : Int) (M : List (Int × Int)) : Bool :=
  M.contains (a, pa) &&
  M.all (fun x => H.nodeIds.contains x.1 && P.nodeIds.contains x.2) &&
  M.all (fun x => admits m (sym P x.2) (sym H x.1)) &&
  M.all (fun x => M.all fun y => (!(x.2 == y.2) || x.1 == y.1) && (!(x.1 == y.1) || x.2 == y.2)) &&
  M.all (fun x => (P.neighbors x.2).all fun q =>
    M.any fun y => y.2 == q && (H.neighbors x.1).contains y.1 && H.bond? x.1 y.1 == P.bond? x.2 q)

/-- one round of neighbourhood closure (keeps discovery order) -/
def grow (g : Graph) (avoid : List Int) (seen : List Int) : List Int :=
  seen.foldl (fun acc q => (g.neighbors q).foldl (fun acc x => if avoid.contains x then acc else addSet x acc) acc) seen

def growN (g : Graph) (avoid : List Int) : Nat → List Int → List Int
  | 0, seen => seen
  | n + 1, seen => growN g avoid n (grow g avoid seen)

/-- nodes reachable from `start` avoiding `avoid`, in discovery order (every node but the first
    has a neighbour earlier in the list) -/
def reachList (g : Graph) (avoid : List Int) (start : Int) : List Int :=
  growN g avoid g.numberOfNodes [start]

/-- nodes of `pa`'s component in discovery order -/
def component (P : Graph) (pa : Int) : List Int := reachList P [] pa

/-- host nodes that may still be given to pattern node `q`: unused, symbol admitted, adjacent with
    equal labels to the images of all pattern neighbours of `q` that are already assigned -/
def candidates (m : Mapper) (P H : Graph) (asg : List (Int × Int)) (q : Int) : List Int :=
  let asgNbrs := asg.filter fun x => (P.neighbors q).contains x.2
  let base := match asgNbrs with
    | [] => H.nodeIds
    | x :: _ => H.neighbors x.1
  base.filter fun h =>
    !(asg.any (·.1 == h)) && admits m (sym P q) (sym H h) &&
      asgNbrs.all fun x => (H.neighbors h).contains x.1 && H.bond? h x.1 == P.bond? q x.2

/-- backtracking over the pattern nodes in the given order -/
def search (m : Mapper) (P H : Graph) : List Int → List (Int × Int) → Option (List (Int × Int))
  | [], asg => some asg
  | q :: rest, asg => (candidates m P H asg q).findSome? fun h => search m P H rest ((h, q) :: asg)

def findEmbedding (m : Mapper) (P H : Graph) (pa a : Int) : Option (List (Int × Int)) :=
  if admits m (sym P pa) (sym H a) && H.hasNode a && P.hasNode pa then
    search m P H ((component P pa).filter (· != pa)) [(a, pa)]
  else none

/-- the oracle of C03 / C04-exactness: is there an embedding of `pa`'s component with
    `pa ↦ a`?  The search result is re-checked by `isEmbedding`. -/
def existsEmbedding (m : Mapper) (P H : Graph) (pa a : Int) : Bool :=
  match findEmbedding m P H pa a with
  | some M => isEmbedding m P H pa a M
  | none => false

/-- un-anchored oracle: some anchor pair admits an embedding -/
def existsEmbeddingAny (m : Mapper) (P H : Graph) : Bool :=
  H.nodeIds.any fun a => P.nodeIds.any fun pa => existsEmbedding m P H pa a

def nodupB : List Int → Bool
  | [] => true
  | x :: xs => !xs.contains x && nodupB xs

/-- executable form of `WF` -/
def wfB (g : Graph) : Bool :=
  nodupB g.nodeIds &&
  (g.adj.map (·.1) == g.nodeIds) &&
  g.adj.all fun row =>
    nodupB (row.2.map (·.1)) &&
    row.2.all fun e =>
      g.nodeIds.contains e.1 && e.1 != row.1 &&
      (g.neighbors e.1).contains row.1 && g.bond? e.1 row.1 == g.bond? row.1 e.1

def closedUnder (g : Graph) (avoid : List Int) (s : List Int) : Bool :=
  s.all fun y => (g.neighbors y).all fun z => avoid.contains z || s.contains z

def disjointB (s t : List Int) : Bool := s.all fun x => !t.contains x

def pairwiseB {α} (r : α → α → Bool) : List α → Bool
  | [] => true
  | x :: xs => xs.all (r x) && pairwiseB r xs

/-- executable form of `IsForest`: for every node, the parts reached from its neighbours once the
    node is deleted are closed and pairwise disjoint -/
def isForestB (g : Graph) : Bool :=
  g.adj.all fun row =>
    let v := row.1
    let comps := (g.neighbors v).map fun a => (a, reachList g [v] a)
    comps.all (fun c => c.2.contains c.1 && closedUnder g [v] c.2) &&
      pairwiseB (fun c d => disjointB c.2 d.2) comps

/-! ### soundness of the executable checkers -/

theorem isEmbedding_iff (m : Mapper) (P H : Graph) (pa a : Int) (M : List (Int × Int)) :
    isEmbedding m P H pa a M = true ↔ IsEmbeddingPairs m P H pa a M := by
  unfold isEmbedding
  simp only [Bool.and_eq_true, List.all_eq_true, List.any_eq_true, List.contains_eq_mem,
    decide_eq_true_eq, Bool.or_eq_true, Bool.not_eq_eq_eq_not, Bool.not_true, beq_eq_false_iff_ne,
    beq_iff_eq, ne_eq]
  constructor
  · rintro ⟨⟨⟨⟨h1, h2⟩, h3⟩, h4⟩, h5⟩
    refine ⟨h1, h2, h3, ?_, ?_, ?_⟩
    · intro x hx y hy hxy
      rcases (h4 x hx y hy).1 with h | h
      · exact absurd hxy h
      · exact h
    · intro x hx y hy hxy
      rcases (h4 x hx y hy).2 with h | h
      · exact absurd hxy h
      · exact h
    · intro x hx q hq
      obtain ⟨y, hy, ⟨hy1, hy2⟩, hy3⟩ := h5 x hx q hq
      exact ⟨y, hy, hy1, hy2, hy3⟩
  · intro h
    refine ⟨⟨⟨⟨h.anchor, h.nodes⟩, h.admitted⟩, ?_⟩, ?_⟩
    · intro x hx y hy
      constructor
      · by_cases hxy : x.2 = y.2
        · exact Or.inr (h.functional x hx y hy hxy)
        · exact Or.inl hxy
      · by_cases hxy : x.1 = y.1
        · exact Or.inr (h.injective x hx y hy hxy)
        · exact Or.inl hxy
    · intro x hx q hq
      obtain ⟨y, hy, hy1, hy2, hy3⟩ := h.bond x hx q hq
      exact ⟨y, hy, ⟨hy1, hy2⟩, hy3⟩

/-- the function a pair list denotes -/
def funOf (M : List (Int × Int)) (q : Int) : Int := ((M.find? (·.2 == q)).map (·.1)).getD 0

theorem funOf_eq {m : Mapper} {P H : Graph} {pa a : Int} {M : List (Int × Int)}
    (h : IsEmbeddingPairs m P H pa a M) (x : Int × Int) (hx : x ∈ M) : funOf M x.2 = x.1 := by
  unfold funOf
  cases hf : M.find? (·.2 == x.2) with
  | none =>
    have := List.find?_eq_none.mp hf x hx
    simp at this
  | some y =>
    have hy := List.mem_of_find?_eq_some hf
    have hy2 : y.2 = x.2 := by simpa using List.find?_some hf
    simp only [Option.map_some, Option.getD_some]
    exact h.functional y hy x hx hy2

/-- every node of the anchor's component occurs in a pair list that satisfies `IsEmbeddingPairs` -/
theorem embeddingPairs_total {m : Mapper} {P H : Graph} {pa a : Int} {M : List (Int × Int)}
    (h : IsEmbeddingPairs m P H pa a M) {p q : Int} (hr : Reach P [] p q)
    (hp : ∃ x ∈ M, x.2 = p) : ∃ x ∈ M, x.2 = q := by
  induction hr with
  | refl _ => exact hp
  | step _ hab _ ih =>
    obtain ⟨x, hx, rfl⟩ := hp
    obtain ⟨y, hy, hy1, _, _⟩ := h.bond x hx _ hab
    exact ih ⟨y, hy, hy1⟩

/-- **a pair list accepted by the checker is the graph of an embedding of the whole component of
    the pattern anchor, with the anchor pair fixed** -/
theorem embeddingPairs_embedding {m : Mapper} {P H : Graph} {pa a : Int} {M : List (Int × Int)}
    (h : IsEmbeddingPairs m P H pa a M) :
    IsAnchoredEmbedding m P H pa a (funOf M) ∧ ∀ q, Reach P [] pa q → (funOf M q, q) ∈ M := by
  have hpair : ∀ q, Reach P [] pa q → ∃ x ∈ M, x.2 = q ∧ funOf M q = x.1 := by
    intro q hq
    obtain ⟨x, hx, rfl⟩ := embeddingPairs_total h hq ⟨(a, pa), h.anchor, rfl⟩
    exact ⟨x, hx, rfl, funOf_eq h x hx⟩
  refine ⟨⟨⟨?_, ?_, ?_, ?_⟩, ?_⟩, ?_⟩
  · intro p q hp hq hpq
    obtain ⟨x, hx, rfl, hfx⟩ := hpair p hp
    obtain ⟨y, hy, rfl, hfy⟩ := hpair q hq
    rw [hfx, hfy] at hpq
    exact h.injective x hx y hy hpq
  · intro p hp
    obtain ⟨x, hx, rfl, hfx⟩ := hpair p hp
    rw [hfx]; exact (h.nodes x hx).1
  · intro p hp
    obtain ⟨x, hx, rfl, hfx⟩ := hpair p hp
    rw [hfx]; exact h.admitted x hx
  · intro p q hp hq
    obtain ⟨x, hx, rfl, hfx⟩ := hpair p hp
    obtain ⟨y, hy, hy1, hy2, hy3⟩ := h.bond x hx q hq
    have hfy : funOf M q = y.1 := by rw [← hy1]; exact funOf_eq h y hy
    rw [hfx, hfy]
    exact ⟨hy2, hy3⟩
  · exact funOf_eq h (a, pa) h.anchor
  · intro q hq
    obtain ⟨x, hx, rfl, hfx⟩ := hpair q hq
    rw [hfx]; exact hx

theorem isEmbedding_sound (m : Mapper) (P H : Graph) (pa a : Int) (M : List (Int × Int))
    (h : isEmbedding m P H pa a M = true) :
    IsAnchoredEmbedding m P H pa a (funOf M) ∧ ∀ q, Reach P [] pa q → (funOf M q, q) ∈ M :=
  embeddingPairs_embedding ((isEmbedding_iff m P H pa a M).mp h)

/-- **soundness of the oracle**: a positive answer exhibits an anchored embedding -/
theorem existsEmbedding_sound (m : Mapper) (P H : Graph) (pa a : Int)
    (h : existsEmbedding m P H pa a = true) : ∃ f, IsAnchoredEmbedding m P H pa a f := by
  unfold existsEmbedding at h
  split at h
  · rename_i M _
    exact ⟨funOf M, (isEmbedding_sound m P H pa a M h).1⟩
  · simp at h

theorem nodupB_sound : ∀ l : List Int, nodupB l = true → l.Nodup
  | [], _ => List.nodup_nil
  | x :: xs, h => by
    simp only [nodupB, Bool.and_eq_true, Bool.not_eq_eq_eq_not, Bool.not_true,
      List.contains_eq_mem, decide_eq_false_iff_not] at h
    exact List.nodup_cons.mpr ⟨h.1, nodupB_sound xs h.2⟩

theorem neighbors_cases (g : Graph) (u : Int) :
    g.neighbors u = [] ∨ ∃ r ∈ g.adj, r.1 = u ∧ g.neighbors u = r.2.map (·.1) := by
  unfold Graph.neighbors Graph.adjRow
  cases hf : g.adj.find? (·.1 == u) with
  | none => left; rfl
  | some r =>
    right
    exact ⟨r, List.mem_of_find?_eq_some hf, by simpa using List.find?_some hf, rfl⟩

theorem wfB_sound (g : Graph) (h : wfB g = true) : WF g := by
  unfold wfB at h
  simp only [Bool.and_eq_true, List.all_eq_true, beq_iff_eq, List.contains_eq_mem,
    decide_eq_true_eq, bne_iff_ne, ne_eq] at h
  obtain ⟨⟨h1, h2⟩, h3⟩ := h
  have hrow : ∀ u v, v ∈ g.neighbors u → ∃ r ∈ g.adj, r.1 = u ∧ g.neighbors u = r.2.map (·.1) ∧
      ∃ e ∈ r.2, e.1 = v := by
    intro u v hv
    rcases neighbors_cases g u with h0 | ⟨r, hr, hru, hn⟩
    · rw [h0] at hv; simp at hv
    · rw [hn, List.mem_map] at hv
      obtain ⟨e, he, rfl⟩ := hv
      exact ⟨r, hr, hru, hn, e, he, rfl⟩
  refine ⟨nodupB_sound _ h1, h2, ?_, ?_, ?_, ?_⟩
  · intro u
    rcases neighbors_cases g u with h0 | ⟨r, hr, _, hn⟩
    · rw [h0]; exact List.nodup_nil
    · rw [hn]; exact nodupB_sound _ (h3 r hr).1
  · intro u v hv
    obtain ⟨r, hr, hru, _, e, he, rfl⟩ := hrow u v hv
    refine ⟨?_, ((h3 r hr).2 e he).1.1.1⟩
    rw [← h2, ← hru]
    exact List.mem_map.mpr ⟨r, hr, rfl⟩
  · intro u hu
    obtain ⟨r, hr, hru, _, e, he, hev⟩ := hrow u u hu
    exact ((h3 r hr).2 e he).1.1.2 (by rw [hev, hru])
  · intro u v hv
    obtain ⟨r, hr, hru, _, e, he, rfl⟩ := hrow u v hv
    have := (h3 r hr).2 e he
    rw [hru] at this
    exact ⟨this.1.2, this.2⟩

theorem Reach.head_not_avoid {g : Graph} {avoid : List Int} {a b : Int} (h : Reach g avoid a b) :
    a ∉ avoid := by
  cases h with
  | refl ha => exact ha
  | step ha _ _ => exact ha

theorem closed_reach {g : Graph} {avoid s : List Int} (hc : closedUnder g avoid s = true)
    {a x : Int} (hr : Reach g avoid a x) (ha : a ∈ s) : x ∈ s := by
  induction hr with
  | refl _ => exact ha
  | step _ hab hbc ih =>
    unfold closedUnder at hc
    simp only [List.all_eq_true, Bool.or_eq_true, List.contains_eq_mem, decide_eq_true_eq] at hc
    rcases hc _ ha _ hab with h | h
    · exact absurd h hbc.head_not_avoid
    · exact ih h

theorem pairwiseB_mem {α} (r : α → α → Bool) : ∀ (l : List α), pairwiseB r l = true →
    ∀ c ∈ l, ∀ d ∈ l, c ≠ d → r c d = true ∨ r d c = true
  | [], _, c, hc, _, _, _ => by simp at hc
  | x :: xs, h, c, hc, d, hd, hne => by
    simp only [pairwiseB, Bool.and_eq_true, List.all_eq_true] at h
    rcases List.mem_cons.mp hc with hcx | hc'
    · rcases List.mem_cons.mp hd with hdx | hd'
      · exact absurd (hcx.trans hdx.symm) hne
      · exact Or.inl (hcx ▸ h.1 d hd')
    · rcases List.mem_cons.mp hd with hdx | hd'
      · exact Or.inr (hdx ▸ h.1 c hc')
      · exact pairwiseB_mem r xs h.2 c hc' d hd' hne

theorem isForestB_sound (g : Graph) (h : isForestB g = true) : IsForest g := by
  intro v a b x ha hb hab hra hrb
  rcases neighbors_cases g v with h0 | ⟨r, hr, hrv, _⟩
  · rw [h0] at ha; simp at ha
  · unfold isForestB at h
    simp only [List.all_eq_true, Bool.and_eq_true] at h
    obtain ⟨hclosed, hpw⟩ := h r hr
    rw [hrv] at hclosed hpw
    have hca := hclosed (a, reachList g [v] a) (List.mem_map.mpr ⟨a, ha, rfl⟩)
    have hcb := hclosed (b, reachList g [v] b) (List.mem_map.mpr ⟨b, hb, rfl⟩)
    simp only [List.contains_eq_mem, decide_eq_true_eq] at hca hcb
    have hxa := closed_reach hca.2 hra hca.1
    have hxb := closed_reach hcb.2 hrb hcb.1
    have := pairwiseB_mem _ _ hpw (a, reachList g [v] a) (List.mem_map.mpr ⟨a, ha, rfl⟩)
      (b, reachList g [v] b) (List.mem_map.mpr ⟨b, hb, rfl⟩) (by simp [hab])
    unfold disjointB at this
    simp only [List.all_eq_true, Bool.not_eq_eq_eq_not, Bool.not_true, List.contains_eq_mem,
      decide_eq_false_iff_not] at this
    rcases this with h1 | h1
    · exact h1 x hxa hxb
    · exact h1 x hxb hxa

end C03
