/-!
  Model of `fgutils/permutation.py`: `generate_mapping_permutations`, `PermutationMapper`,
  `MappingMatrix.is_mapping`.  (C08; used by the matcher models of C03–C07.)  No Mathlib.

  An assignment is a `List Int` of the length of the pattern: entry `i` is the struct
  position given to pattern position `i`, or `-1` ("nothing").  The Python value is the list of
  pairs `[(0, a₀), (1, a₁), …]`; the first components are always `0, 1, …` in order.
-/
namespace Perm

/-- every way of removing one element: `(l[i], l without position i)` for `i = 0, 1, …` -/
def picks {α} : List α → List (α × List α)
  | [] => []
  | x :: xs => (x, xs) :: (picks xs).map fun p => (p.1, x :: p.2)

/-- the `k`-arrangements of `l` in the order in which their first occurrence as a prefix appears
    in `itertools.permutations(l)` (lexicographic in positions) -/
def arrangements {α} : Nat → List α → List (List α)
  | 0, _ => [[]]
  | k + 1, l => (picks l).flatMap fun p => (arrangements k p.2).map (p.1 :: ·)

/-- Python `x in l` first-occurrence de-duplication -/
def dedup {α} [BEq α] : List α → List α → List α
  | [], _ => []
  | x :: xs, seen => if seen.contains x then dedup xs seen else x :: dedup xs (x :: seen)

/-- Python's `a in b` for strings -/
def isSubstr (a b : String) : Bool :=
  let rec go : List Char → Bool
    | [] => a.toList.isEmpty
    | c :: cs => a.toList.isPrefixOf (c :: cs) || go cs
  go b.toList

structure Mapper where
  wildcard : Option String := none
  ignoreCase : Bool := false
  /-- as passed to the constructor (a bare string is a one-element list) -/
  canMapToNothing : List String := []
deriving Repr, Inhabited

/-- constructor: stable sort that moves the symbols contained in the wildcard to the end -/
def Mapper.cmtnSorted (m : Mapper) : List String :=
  let isW := fun (x : String) => match m.wildcard with
    | some w => isSubstr x w
    | none => false
  m.canMapToNothing.filter (fun x => !isW x) ++ m.canMapToNothing.filter isW

/-- `generate_mapping_permutations(pattern, struct, wildcard)` restricted to what survives the
    later de-duplication: one entry per matching `|pattern|`-arrangement of struct positions -/
def generate (pattern struct : List String) (wildcard : Option String) : List (List Nat) :=
  if pattern.isEmpty then []
  else
    let indexed := (List.range struct.length).zip struct
    (arrangements pattern.length indexed).filterMap fun arr =>
      if (pattern.zip arr).all (fun ps => some ps.1 == wildcard || ps.1 == ps.2.2)
      then some (arr.map (·.1)) else none

/-- the dummy-padding loop of `permute`; returns the extended struct and the added positions -/
def pad (wildcard : Option String) (pattern : List String) :
    List String → List String → List Nat → List String × List Nat
  | [], struct, adds => (struct, adds)
  | c :: cs, struct, adds =>
      let num : Int :=
        if some c == wildcard then (pattern.length : Int) - struct.length
        else ((pattern.filter (· == c)).length : Int) - (struct.filter (· == c)).length
      let k := num.toNat
      pad wildcard pattern cs (struct ++ List.replicate k c)
        (adds ++ (List.range k).map (· + struct.length))

/-- `PermutationMapper.permute(pattern, struct)` -/
def Mapper.permute (m : Mapper) (pattern struct : List String) : List (List Int) :=
  let lower := fun (s : String) => if m.ignoreCase then s.toLower else s
  let wildcard := m.wildcard.map lower
  let pattern := pattern.map lower
  let struct := struct.map lower
  let cmtn := m.cmtnSorted.map lower
  let (struct', adds) := pad wildcard pattern cmtn struct []
  let mappings := generate pattern struct' wildcard
  let rewritten := mappings.map fun a => a.map fun si => if adds.contains si then (-1 : Int) else (si : Int)
  dedup rewritten []

/-- `MappingMatrix(...).is_mapping(ps, ss)` for symbols that were given to the constructor
    (after repair: the constructor asks `permute([ps], [ss])`) -/
def Mapper.isMapping (m : Mapper) (ps ss : String) : Bool := !(m.permute [ps] [ss]).isEmpty

end Perm
