/-
  C16 — model of `fgutils.synthesis.rule_application`:
  `ReactionRule` (split of the rc graph), `apply_rule`, `DPORule.to_rc_graph`.

  What enters the code of `apply_rule`:
    * the reactant graph `g`: nodes (id, symbol) in node order and `g.edges(data=True)`
      in networkx's order, each with its (doubled) bond order;
    * the rule: its reaction-centre graph, every edge carrying the pair [left, right];
    * the list of mappings produced by
      `GraphMatcher(g, rule.l, node_match = symbol equality, edge_match = bond equality)
         .subgraph_monomorphisms_iter()`   — a PARAMETER of the model (`matches`): the VF2
      matcher is third-party code, it is not modelled.  Its assumed contract is the predicate
      `C16.MatchesContract` in `Proofs/C16.lean`; the harness checks it on every case with the
      model's own enumerator `monos` below;
    * `nx.weisfeiler_lehman_graph_hash(its, edge_attr=bond, node_attr=symbol, iterations=3)`
      — a PARAMETER `wl : ITSGraph → Hash`;
    * `nx.is_connected(its)` — modelled (`isConnected`, proved equivalent to path
      connectivity in `Proofs/C16.lean`).

  Graphs are edge lists with unordered lookup: the property does not observe adjacency order.
  Bond orders are doubled integers (1.5 ↦ 3); 0 = "no bond on this side".
  `ITS(its)` afterwards completes the atom map (`complete_aam(offset="min")`, property C20);
  the atom map is not part of C16's observable.  No Mathlib.
-/
namespace C16

/-- an edge-list entry: the two end points and a label -/
abbrev E (α : Type) := Int × Int × α

/-- does the stored edge `(a, b)` join `u` and `v` (undirected)? -/
def hit (a b u v : Int) : Bool := (a == u && b == v) || (a == v && b == u)

/-- `graph.edges[u, v][BOND_KEY]` / `graph.has_edge(u, v)` on an edge list -/
def lookupE {α : Type} (es : List (E α)) (u v : Int) : Option α :=
  (es.find? fun e => hit e.1 e.2.1 u v).map (·.2.2)

/-- molecular graph: nodes `(id, symbol)`, edges `(u, v, 2·order)` -/
structure MolGraph where
  nodes : List (Int × String)
  edges : List (E Int)
deriving DecidableEq, Repr, Inhabited

/-- ITS / reaction-centre graph: edges `(u, v, (2·left, 2·right))` -/
structure ITSGraph where
  nodes : List (Int × String)
  edges : List (E (Int × Int))
deriving DecidableEq, Repr, Inhabited

namespace MolGraph
def nodeIds (g : MolGraph) : List Int := g.nodes.map (·.1)
def symbol? (g : MolGraph) (n : Int) : Option String := (g.nodes.find? (·.1 == n)).map (·.2)
def bond? (g : MolGraph) (u v : Int) : Option Int := lookupE g.edges u v
def hasEdge (g : MolGraph) (u v : Int) : Bool := (g.bond? u v).isSome
end MolGraph

namespace ITSGraph
def nodeIds (g : ITSGraph) : List Int := g.nodes.map (·.1)
def label? (g : ITSGraph) (u v : Int) : Option (Int × Int) := lookupE g.edges u v
end ITSGraph

/-! ### `split_its` and `ReactionRule` -/

/-- `g`/`h` of `split_its`: a copy in which every edge carries one component of its pair and
    is removed when that component is 0 -/
def leftEdges (es : List (E (Int × Int))) : List (E Int) :=
  es.filterMap fun e => if e.2.2.1 = 0 then none else some (e.1, e.2.1, e.2.2.1)

def rightEdges (es : List (E (Int × Int))) : List (E Int) :=
  es.filterMap fun e => if e.2.2.2 = 0 then none else some (e.1, e.2.1, e.2.2.2)

def splitIts (its : ITSGraph) : MolGraph × MolGraph :=
  (⟨its.nodes, leftEdges its.edges⟩, ⟨its.nodes, rightEdges its.edges⟩)

/-- `ReactionRule(rc_graph)`: `self.l, self.r = split_its(rc_graph)` -/
structure Rule where
  rc : ITSGraph
  l : MolGraph
  r : MolGraph
deriving Repr, Inhabited

def mkRule (rc : ITSGraph) : Rule := ⟨rc, (splitIts rc).1, (splitIts rc).2⟩

/-! ### one match -/

/-- `g2its_mapping`: the dict VF2 yields, reactant node ↦ rule node, in dict order -/
abbrev Match := List (Int × Int)

/-- `g2its_mapping[u]` (`none` = not a key) -/
def getM (m : Match) (u : Int) : Option Int := (m.find? (·.1 == u)).map (·.2)

/-- `its2g_mapping[x]` with `its2g_mapping = {v: k for k, v in g2its_mapping.items()}`
    (VF2's mappings are injective, so "first" and Python's "last wins" coincide) -/
def invM (m : Match) (x : Int) : Option Int := (m.find? (·.2 == x)).map (·.1)

/-- the first loop's `h_bond` for the edge `(u, v)` of `g` with order `b` -/
def hBond (rule : Rule) (m : Match) (u v b : Int) : Int :=
  match getM m u, getM m v with
  | some ur, some vr =>
      match rule.r.bond? ur vr with
      | some k => k                                  -- rule.r.has_edge(ur, vr)
      | none => if rule.l.hasEdge ur vr then 0 else b  -- elif rule.l.has_edge(ur, vr) / default
  | _, _ => b

/-- `its_edge_attrs` after the first loop: every edge of `g` with `[bond, h_bond]` -/
def firstLoop (g : MolGraph) (rule : Rule) (m : Match) : List (E (Int × Int)) :=
  g.edges.map fun e => (e.1, e.2.1, (e.2.2, hBond rule m e.1 e.2.1 e.2.2))

/-- second loop body for the images `u, v` of a `rule.r` edge with order `d`:
    existing edge ↦ `[its.edges[u, v][BOND_KEY], d]`, otherwise `add_edge(u, v, [0, d])` -/
def overlayEdge (es : List (E (Int × Int))) (u v d : Int) : List (E (Int × Int)) :=
  if es.any (fun e => hit e.1 e.2.1 u v) then
    es.map fun e => if hit e.1 e.2.1 u v then (e.1, e.2.1, (e.2.2.1, d)) else e
  else es ++ [(u, v, (0, d))]

/-- `u = its2g_mapping[ur]; v = its2g_mapping[vr]; …` (a missing key is a `KeyError` in Python;
    it cannot happen for a VF2 mapping, which covers every node of `rule.l` = nodes of `rule.r`;
    the driver refuses such input) -/
def overlay (m : Match) (es : List (E (Int × Int))) (re : E Int) : List (E (Int × Int)) :=
  match invM m re.1, invM m re.2.1 with
  | some u, some v => overlayEdge es u v re.2.2
  | _, _ => es

/-- the ITS graph built for one mapping (before `ITS(...)` numbers the atoms) -/
def applyMatch (g : MolGraph) (rule : Rule) (m : Match) : ITSGraph :=
  ⟨g.nodes, rule.r.edges.foldl (overlay m) (firstLoop g rule m)⟩

/-! ### `nx.is_connected` -/

def adjacent {α : Type} (es : List (E α)) (a b : Int) : Bool := es.any fun e => hit e.1 e.2.1 a b

/-- grow the component: move every not-yet-seen node with a seen neighbour into `seen`;
    stop when nothing moves.  `fuel = |rest|` always suffices (`Proofs/C16.lean`). -/
def grow {α : Type} (es : List (E α)) : Nat → List Int → List Int → List Int × List Int
  | 0, seen, rest => (seen, rest)
  | fuel + 1, seen, rest =>
      let near := rest.filter fun n => seen.any fun s => adjacent es s n
      let far := rest.filter fun n => !(seen.any fun s => adjacent es s n)
      if near.isEmpty then (seen, rest) else grow es fuel (seen ++ near) far

/-- every node is reached from the first one (edges whose product order is 0 count: they are
    edges of the ITS graph).  networkx raises on the null graph; reactants are never empty. -/
def isConnected (its : ITSGraph) : Bool :=
  match its.nodeIds with
  | [] => false
  | s :: rest => (grow its.edges rest.length [s] rest).2.isEmpty

/-! ### `apply_rule` -/

abbrev Hash := String

/-- `n is not None and len(its_graphs) >= n` -/
def limitReached (n : Option Nat) (k : Nat) : Bool :=
  match n with
  | none => false
  | some n => decide (n ≤ k)

/-- `its_graphs`: an insertion-ordered dict; key = WL hash (`unique`) or the running index -/
abbrev Acc := List (Option Hash × ITSGraph)

/-- the part of the loop body after the ITS graph has been built -/
def step (wl : ITSGraph → Hash) (unique connectedOnly : Bool) (acc : Acc) (its : ITSGraph) : Acc :=
  if connectedOnly && !isConnected its then acc          -- continue
  else if unique then
    let h := wl its
    if acc.any (fun p => p.1 == some h) then acc else acc ++ [(some h, its)]
  else acc ++ [(none, its)]

/-- `for g2its_mapping in matcher.subgraph_monomorphisms_iter(): …` -/
def loop (wl : ITSGraph → Hash) (g : MolGraph) (rule : Rule) (n : Option Nat)
    (unique connectedOnly : Bool) : List Match → Acc → Acc
  | [], acc => acc
  | m :: ms, acc =>
      if limitReached n acc.length then acc   -- break
      else loop wl g rule n unique connectedOnly ms
             (step wl unique connectedOnly acc (applyMatch g rule m))

/-- `apply_rule(g, rule, n, unique, connected_only)` given VF2's mappings `ms`: the graphs of the
    returned `ITS` objects, in order -/
def applyRule (wl : ITSGraph → Hash) (g : MolGraph) (rule : Rule) (ms : List Match)
    (n : Option Nat) (unique connectedOnly : Bool) : List ITSGraph :=
  (loop wl g rule n unique connectedOnly ms []).map (·.2)

/-! ### `DPORule.to_rc_graph` -/

inductive DpoError where
  | assertion   -- the context graph has edges
  | valueError  -- a left node is not in the context
deriving DecidableEq, Repr

/-- result of `to_rc_graph`; `add_edge` creates nodes without a symbol for end points that
    are in no node list (a right-hand edge outside the context) -/
structure RcOut where
  nodes : List (Int × Option String)
  edges : List (E (Int × Int))
deriving DecidableEq, Repr

def addMissing (nodes : List (Int × Option String)) (n : Int) : List (Int × Option String) :=
  if nodes.any (·.1 == n) then nodes else nodes ++ [(n, none)]

def toRcGraph (left context right : MolGraph) : Except DpoError RcOut :=
  if !context.edges.isEmpty then .error .assertion
  else if left.nodes.any (fun n => !(context.nodes.any (·.1 == n.1))) then .error .valueError
  else
    let es0 : List (E (Int × Int)) := left.edges.map fun e => (e.1, e.2.1, (e.2.2, 0))
    let es := right.edges.foldl (fun es e => overlayEdge es e.1 e.2.1 e.2.2) es0
    let ns0 : List (Int × Option String) := context.nodes.map fun n => (n.1, some n.2)
    let ns := (left.edges ++ right.edges).foldl (fun ns e => addMissing (addMissing ns e.1) e.2.1) ns0
    .ok ⟨ns, es⟩

/-- `[left order or 0, right order or 0]`, no edge where neither side has one -/
def combineLR (l r : Option Int) : Option (Int × Int) :=
  match l, r with
  | none, none => none
  | l, r => some (l.getD 0, r.getD 0)

/-- the statement for `to_rc_graph`, pointwise and executable: the label between two nodes is
    `[left order or 0, right order or 0]`, and the nodes are the context's -/
def rcSpecB (left context right : MolGraph) (nodes : List (Int × Option String))
    (edges : List (E (Int × Int))) : Bool :=
  let lab := fun u v => combineLR (left.bond? u v) (right.bond? u v)
  edges.all (fun e => decide (lookupE edges e.1 e.2.1 = lab e.1 e.2.1))
  && left.edges.all (fun e => decide (lookupE edges e.1 e.2.1 = lab e.1 e.2.1))
  && right.edges.all (fun e => decide (lookupE edges e.1 e.2.1 = lab e.1 e.2.1))
  && (context.nodes.all fun n => nodes.contains (n.1, some n.2))
  && (nodes.all fun n => n.2.isNone || context.nodes.contains (n.1, n.2.getD ""))

/-! ### the specification, executable part

  For a reactant graph `g`, a rule `rc` and a mapping `m` (reactant node ↦ rule node) the ITS
  graph the property prescribes has `g`'s nodes and, between `u` and `v`, the label
  `expLabel g rc m u v`. -/

/-- the rule edge (its pair of orders) joining the rule nodes that `u` and `v` are matched to -/
def rcLabelAt (rc : ITSGraph) (m : Match) (u v : Int) : Option (Int × Int) :=
  match getM m u, getM m v with
  | some x, some y => rc.label? x y
  | _, _ => none

/-- * a bond `b` of `g` that no rule edge lies over keeps its order: `[b, b]`;
    * a bond `b` of `g` under a rule edge gets the rule's product order: `[b, r]`
      (the bond disappears on the product side when `r = 0`);
    * a rule edge over two atoms that `g` does not join adds `[0, r]` (`r ≠ 0`). -/
def expLabel (g : MolGraph) (rc : ITSGraph) (m : Match) (u v : Int) : Option (Int × Int) :=
  match g.bond? u v, rcLabelAt rc m u v with
  | some b, none => some (b, b)
  | some b, some lr => some (b, lr.2)
  | none, some lr => if lr.2 = 0 then none else some (0, lr.2)
  | none, none => none

/-- a bond of `g` in the prescribed ITS graph -/
def expKept (rc : ITSGraph) (m : Match) (e : E Int) : E (Int × Int) :=
  (e.1, e.2.1, (e.2.2, match rcLabelAt rc m e.1 e.2.1 with | some lr => lr.2 | none => e.2.2))

/-- a rule edge that forms a bond between two atoms `g` does not join -/
def expAdded (g : MolGraph) (m : Match) (e : E (Int × Int)) : Option (E (Int × Int)) :=
  match invM m e.1, invM m e.2.1 with
  | some u, some v =>
      if decide (e.2.2.2 = 0) || g.hasEdge u v then none else some (u, v, (0, e.2.2.2))
  | _, _ => none

/-- the prescribed ITS graph, built edge by edge from the wording of the property:
    every edge of `g`, then every rule edge whose images `g` does not join -/
def expectedIts (g : MolGraph) (rc : ITSGraph) (m : Match) : ITSGraph :=
  ⟨g.nodes, g.edges.map (expKept rc m) ++ rc.edges.filterMap (expAdded g m)⟩

/-- Boolean form of `IsExpected` (`Proofs/C16.lean`): `its` has `g`'s nodes and the label of
    every pair of atoms is the prescribed one.  Pairs that need looking at: the edges of `its`,
    the edges of `g`, and the pairs of matched atoms. -/
def isExpectedB (g : MolGraph) (rc : ITSGraph) (m : Match) (its : ITSGraph) : Bool :=
  decide (its.nodes = g.nodes)
  && its.edges.all (fun e => decide (expLabel g rc m e.1 e.2.1 = some e.2.2))
  && g.edges.all (fun e => decide (its.label? e.1 e.2.1 = expLabel g rc m e.1 e.2.1))
  && m.all (fun p => m.all fun q => decide (its.label? p.1 q.1 = expLabel g rc m p.1 q.1))

/-- same nodes, same label between every two atoms (edge order and orientation ignored) -/
def itsEquivB (a b : ITSGraph) : Bool :=
  decide (a.nodes = b.nodes)
  && a.edges.all (fun e => decide (b.label? e.1 e.2.1 = some e.2.2))
  && b.edges.all (fun e => decide (a.label? e.1 e.2.1 = some e.2.2))

/-- `mol` has `g`'s nodes and bonds (edge order and orientation ignored) -/
def molEquivB (a b : MolGraph) : Bool :=
  decide (a.nodes = b.nodes)
  && a.edges.all (fun e => decide (b.bond? e.1 e.2.1 = some e.2.2))
  && b.edges.all (fun e => decide (a.bond? e.1 e.2.1 = some e.2.2))

/-! ### own enumeration of the monomorphisms of `l` into `g` (not VF2)

  All injective symbol-preserving assignments of the nodes of `l` (in node order), then those
  that carry every edge of `l` onto an edge of `g` with the same order.  A mapping is returned
  in the orientation VF2 uses: `(reactant node, rule node)`, ordered by `l`'s node order. -/

def enumInj (gnodes : List (Int × String)) : List (Int × String) → List Int → List Match
  | [], _ => [[]]
  | (x, s) :: rest, used =>
      (gnodes.filter fun n => n.2 == s && !used.contains n.1).flatMap fun n =>
        (enumInj gnodes rest (n.1 :: used)).map fun m => (n.1, x) :: m

/-- every edge of `l` lies over an edge of `g` with the same order -/
def bondsOk (g l : MolGraph) (m : Match) : Bool :=
  l.edges.all fun e =>
    match invM m e.1, invM m e.2.1 with
    | some u, some v => g.bond? u v == some e.2.2
    | _, _ => false

def monos (g l : MolGraph) : List Match := (enumInj g.nodes l.nodes []).filter (bondsOk g l)

/-- `mapM` in the `Option` monad, written out -/
def mapOpt {α β : Type} (f : α → Option β) : List α → Option (List β)
  | [] => some []
  | a :: as =>
      match f a, mapOpt f as with
      | some b, some bs => some (b :: bs)
      | _, _ => none

/-- a VF2 mapping in the enumerator's normal form (ordered by `l`'s nodes); `none` when it is not
    an injective dict onto nodes of `l` -/
def normMatch (l : MolGraph) (m : Match) : Option Match :=
  if decide (m.map (·.1)).Nodup && decide (m.map (·.2)).Nodup
      && m.all (fun p => l.nodeIds.contains p.2) then
    mapOpt (fun n => (invM m n.1).map fun u => (u, n.1)) l.nodes
  else none

/-- the assumed contract of VF2, checked with the own enumerator: the normal forms of VF2's
    mappings are exactly the enumerated monomorphisms, none twice -/
def contractOk (g l : MolGraph) (ms : List Match) : Bool :=
  match mapOpt (normMatch l) ms with
  | none => false
  | some ns =>
      let own := monos g l
      ns.all (fun m => own.contains m) && own.all (fun m => ns.contains m) && decide ns.Nodup

/-! ### executable specification of `apply_rule`'s result list (order-free)

  `results` is what the implementation returned, `wl` gives the 3-round WL hash of a result.
  The pool of prescribed ITS graphs is built from the OWN enumeration, not from VF2. -/

/-- remove the first element satisfying `p` (`none` when there is none) -/
def removeFirst {α : Type} (p : α → Bool) : List α → Option (List α)
  | [] => none
  | x :: xs => if p x then some xs else (removeFirst p xs).map (x :: ·)

/-- every result is prescribed by its own mapping of the pool (no mapping used twice) -/
def matchUp (g : MolGraph) (rc : ITSGraph) : List ITSGraph → List Match → Bool
  | [], _ => true
  | r :: rs, pool =>
      match removeFirst (fun m => isExpectedB g rc m r) pool with
      | some pool' => matchUp g rc rs pool'
      | none => false

def dedupHashes : List Hash → List Hash → List Hash
  | [], _ => []
  | h :: hs, seen => if seen.contains h then dedupHashes hs seen else h :: dedupHashes hs (h :: seen)

def nodupB : List Hash → Bool
  | [] => true
  | h :: hs => !hs.contains h && nodupB hs

def capLen (n : Option Nat) (total : Nat) : Nat :=
  match n with
  | none => total
  | some n => min n total

/-- which clause of the statement fails first (`none` = all hold) -/
def specClause (wl : ITSGraph → Hash) (g : MolGraph) (rc : ITSGraph) (n : Option Nat)
    (unique connectedOnly : Bool) (results : List ITSGraph) : Option String :=
  let l := (mkRule rc).l
  let pool0 := monos g l
  let pool := pool0.filter fun m => !connectedOnly || isConnected (expectedIts g rc m)
  if !(pool0.all fun m => isExpectedB g rc m (expectedIts g rc m)) then some "spec-self-check"
  else if !(results.all fun r => decide (r.nodes = g.nodes)) then some "nodes"
  else if !(results.all fun r => molEquivB (splitIts r).1 g) then some "reactant_side"
  else if !(results.all fun r => pool0.any fun m => isExpectedB g rc m r) then some "product_side"
  else if connectedOnly && !(results.all isConnected) then some "connected_only"
  else if !(results.all fun r => pool.any fun m => isExpectedB g rc m r) then some "connected_only"
  else if unique then
    if !nodupB (results.map wl) then some "unique:two-results-in-one-class"
    else if results.length != capLen n (dedupHashes (pool.map fun m => wl (expectedIts g rc m)) []).length
      then some "unique:count"
    else none
  else
    if !matchUp g rc results pool then some "one_per_match:embedding-used-twice"
    else if results.length != capLen n pool.length then some "one_per_match:count"
    else none

/-! ### the hypotheses of the theorems, executable (evaluated by the driver on every request) -/

/-- no two entries of an edge list join the same pair of atoms (a simple graph) -/
def nodupPairsB {α : Type} : List (E α) → Bool
  | [] => true
  | e :: es => es.all (fun f => !hit e.1 e.2.1 f.1 f.2.1) && nodupPairsB es

/-- Boolean form of `InputsWF g rc` (`Proofs/C16Full.lean`; sound: `C16.inputsWFB_sound`): `g` is a simple
    graph with pairwise distinct node ids, bond orders `≠ 0`, edges between its nodes; `rc` is a simple
    graph whose labels are not `(0, 0)` and whose node ids are pairwise distinct.  These are the
    hypotheses of `C16.applyRule_spec`; `C16.specCheck_sound` needs the two `Nodup` parts. -/
def inputsWFB (g : MolGraph) (rc : ITSGraph) : Bool :=
  nodupPairsB g.edges && g.edges.all (fun e => e.2.2 != 0)
  && decide g.nodeIds.Nodup
  && g.edges.all (fun e => g.nodeIds.contains e.1 && g.nodeIds.contains e.2.1)
  && nodupPairsB rc.edges && rc.edges.all (fun e => !(e.2.2.1 == 0 && e.2.2.2 == 0))
  && decide (mkRule rc).l.nodeIds.Nodup

def specCheck (wl : ITSGraph → Hash) (g : MolGraph) (rc : ITSGraph) (n : Option Nat)
    (unique connectedOnly : Bool) (results : List ITSGraph) : Bool :=
  (specClause wl g rc n unique connectedOnly results).isNone

end C16
