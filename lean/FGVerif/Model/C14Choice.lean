import FGVerif.Model.C14
/-!
  C14 — the enumeration, declaratively: CHOICE COMBINATIONS of a pattern under a configuration, the list of
  all of them (`allChoices`, a product/sum construction that mirrors the count formula `numExp` clause by clause)
  and the expansion of a pattern under one combination (`expand`).  Nothing here refers to the working-set loop
  of `build_graphs` (`step` / `buildLoop` of `Model/C14.lean`); the theorems of `Proofs/C14Enum*.lean` say that
  the loop returns exactly `(allChoices cfg core).map (expand cfg core)` up to the order of the list.

  **Choice combinations.**  A `Choice` is made for ONE group-labelled node: `Choice.node i subs` selects the
  `i`-th graph of the node's group and carries, recursively, one choice for every group-labelled node of that
  graph (`subs`, in the graph's node order).  A combination for a pattern (`Combo`) is a list of choices, one per
  group-labelled node of the pattern, in node order.

  **The set of combinations** is the inductive predicate `ValidCombo cfg (refsOf cfg p) cs` (with `ValidChoice`): index
  in range of the node's group, sub-choices valid for the chosen graph; `allChoices` below enumerates exactly this set,
  each element once, when the configuration is acyclic (`C14.mem_allChoices_iff`, `C14.allChoices_nodup`).

  **All combinations.**  `groupChoices cfg d name` (all choices for a node labelled `name`, nesting depth ≤ `d`) is
  the concatenation over the graphs of the group (sum) of the cartesian product (`prodL`) over the graph's group
  nodes of the choices of their groups — `groupExp` with `+`/`·` replaced by `++`/`prodL`; `allChoices cfg p` is the
  cartesian product over the group nodes of `p`; the depth `depthOf (toRef cfg)` is the one `numExp` uses (it
  suffices for an acyclic configuration).  `C14.allChoices_length : (allChoices cfg p).length = numExp cfg p` holds
  for EVERY configuration (no hypothesis).

  **Expansion.**  The chosen graphs are substituted one at a time with `C13.replaceNode` (whose result is described
  declaratively by `C13.SpecIds` / `replace_exact`), always at the FIRST group-labelled node in node order of the
  current graph.  Since `replaceNode` keeps the other nodes in order and appends the nodes of the inserted pattern
  at the end, the pending group nodes form a queue: the choices of a combination are consumed front to back and the
  sub-choices of the choice just consumed are appended at the back (`expandQ`: `q ++ subs`).  The order of the
  substitutions is part of the definition because it is OBSERVABLE: the k-th incident bond of the replaced node goes
  to `anchor[min k (|anchor|-1)]`, and replacing a neighbour first moves a bond to the end of the adjacency row
  (`C14.substitution_order_matters` in `Proofs/C14Enum.lean` is a concrete configuration where the other order gives
  a non-isomorphic graph).  This is the order in which the real code substitutes along ONE combination
  (`replace_next_node` always takes `_get_next_group_node`).  Renumbering: every `replaceNode` ends with
  `relabel_graph(g, 0)`, so after each substitution the surviving nodes are renumbered order-preservingly onto
  `0..n-2` and the inserted pattern's nodes get `n-1, n, …` in pattern order; `expand` therefore yields the graph
  with exactly the ids (and node order, and adjacency order) the real code produces — the theorem is an equality
  of graphs, not an isomorphism.

  Also here: the patterns chosen along a combination computed from the configuration alone (`chosen`: no graph is
  built), the traced expansion `expandT` (graph + `Trace`, same bookkeeping as `replaceNextNodeT`).  No Mathlib.
-/
namespace C14
open C13

/-- a choice for one group-labelled node: the index of the chosen graph of the node's group and one choice for
    each group-labelled node of that graph (in node order) -/
inductive Choice where
  | node (idx : Nat) (subs : List Choice)
deriving Inhabited

/-- a choice combination for a pattern: one choice per group-labelled node, in node order -/
abbrev Combo := List Choice

mutual
/-- number of substitutions a choice stands for -/
def Choice.size : Choice → Nat
  | .node _ subs => sizeL subs + 1
/-- number of substitutions a combination stands for -/
def sizeL : List Choice → Nat
  | [] => 0
  | c :: cs => c.size + sizeL cs
end

/-- cartesian product of a list of lists (first factor outermost) -/
def prodL {α : Type} : List (List α) → List (List α)
  | [] => [[]]
  | xs :: rest => xs.flatMap fun x => (prodL rest).map fun q => x :: q

/-- a group node must carry exactly one group label (otherwise `RuntimeError`: no combination) — `oneLabel` for lists -/
def oneLabelL {α : Type} (f : String → List α) : List String → List α
  | [l] => f l
  | _ => []

/-- all choices for a node labelled with the group `name`: for every graph of the group (in order, with its index)
    every combination for that graph; `d` bounds the nesting depth (as in `groupExp`) -/
def groupChoices (cfg : Config) : Nat → String → List Choice
  | 0, _ => []
  | d + 1, name =>
    match lookup cfg name with
    | none => []
    | some grp =>
      grp.graphs.zipIdx.flatMap fun p =>
        (prodL ((refsOf cfg p.1.pattern).map (oneLabelL (groupChoices cfg d)))).map (Choice.node p.2)

/-- all combinations for a list of group nodes (given by their group labels) -/
def nodesChoices (cfg : Config) (d : Nat) (rg : RefGraph) : List Combo :=
  prodL (rg.map (oneLabelL (groupChoices cfg d)))

/-- all choice combinations of a pattern: the cartesian product over its group-labelled nodes (node order) of the
    choices of their groups -/
def allChoices (cfg : Config) (g : Graph) : List Combo :=
  nodesChoices cfg (depthOf (toRef cfg)) (refsOf cfg g)

/-! ### the set of choice combinations, as a predicate (no list, no depth bound)

  `allChoices` is its duplicate-free enumeration: `C14.mem_allChoices_iff`, `C14.allChoices_nodup`
  (`Proofs/C14EnumValid.lean`). -/

mutual
/-- `ValidChoice cfg name c`: `c` is a choice for a node labelled with the configured group `name` — the index of one
    of the group's graphs and a valid combination for the group nodes of that graph -/
inductive ValidChoice (cfg : Config) : String → Choice → Prop where
  | node {name : String} {grp : Group} {i : Nat} {sg : PGraph} {subs : List Choice} :
      lookup cfg name = some grp → grp.graphs[i]? = some sg → ValidCombo cfg (refsOf cfg sg.pattern) subs →
      ValidChoice cfg name (.node i subs)
/-- `ValidCombo cfg rg cs`: `cs` is a choice combination for group nodes with the group labels `rg` (node order) — one
    valid choice per node, every node carrying exactly one group label -/
inductive ValidCombo (cfg : Config) : RefGraph → List Choice → Prop where
  | nil : ValidCombo cfg [] []
  | cons {name : String} {c : Choice} {rg : RefGraph} {cs : List Choice} :
      ValidChoice cfg name c → ValidCombo cfg rg cs → ValidCombo cfg ([name] :: rg) (c :: cs)
end

/-! ### expansion of a pattern under one combination -/

/-- the group-labelled node that is substituted next (the first in node order) and its group -/
def nextGroup (cfg : Config) (g : Graph) : Option (Int × Group) :=
  match nextGroupNode cfg g with
  | none => none
  | some (x, a) =>
    match groupLabels cfg a with
    | [name] => (lookup cfg name).map fun grp => (x, grp)
    | _ => none

/-- substitute the first group-labelled node by the graph its choice selects, then go on with the remaining choices
    followed by the sub-choices of the one just consumed.  The fuel is the number of substitutions (`sizeL`);
    a combination that does not fit the pattern (no group node left, index out of range) stops the expansion. -/
def expandQ (cfg : Config) : Nat → Graph → List Choice → Graph
  | 0, g, _ => g
  | _ + 1, g, [] => g
  | f + 1, g, .node i subs :: q =>
    match nextGroup cfg g with
    | none => g
    | some (x, grp) =>
      match grp.graphs[i]? with
      | none => g
      | some sg => expandQ cfg f (replaceNode g x sg.pattern sg.anchors) (q ++ subs)

/-- **the expansion of `pattern` under the combination `cs`** -/
def expand (cfg : Config) (pattern : Graph) (cs : Combo) : Graph := expandQ cfg (sizeL cs) pattern cs

/-! ### the same with the bookkeeping of `replaceNextNodeT` -/

/-- one traced substitution (the body of the `map` in `replaceNextNodeT`) -/
def substT (gt : Graph × Trace) (anchor : Int) (sg : PGraph) : Graph × Trace :=
  (replaceNode gt.1 anchor sg.pattern sg.anchors,
   { symbols := gt.2.symbols ++ symbolsOf sg.pattern
     bonds := gt.2.bonds ++ bondLabelsOf sg.pattern
     replaced := gt.2.replaced + 1
     dropped := if sg.pattern.nodes.isEmpty
                then gt.2.dropped ++ (gt.1.edgesOf anchor).map (·.2.2.2) else gt.2.dropped })

def expandQT (cfg : Config) : Nat → Graph × Trace → List Choice → Graph × Trace
  | 0, gt, _ => gt
  | _ + 1, gt, [] => gt
  | f + 1, gt, .node i subs :: q =>
    match nextGroup cfg gt.1 with
    | none => gt
    | some (x, grp) =>
      match grp.graphs[i]? with
      | none => gt
      | some sg => expandQT cfg f (substT gt x sg) (q ++ subs)

/-- the trace of an untouched pattern -/
def trace0 (core : Graph) : Trace := { symbols := symbolsOf core, bonds := bondLabelsOf core }

/-- traced expansion from an arbitrary traced graph -/
def expandFrom (cfg : Config) (gt : Graph × Trace) (cs : Combo) : Graph × Trace := expandQT cfg (sizeL cs) gt cs

/-- traced expansion of a pattern -/
def expandT (cfg : Config) (pattern : Graph) (cs : Combo) : Graph × Trace := expandFrom cfg (pattern, trace0 pattern) cs

/-! ### what a combination selects, computed from the configuration alone -/

/-- the graphs chosen along a combination, in the order in which they are substituted; `rq` holds the group labels of
    the pending group nodes (the queue that `expandQ` realises on the graph) -/
def chosenQ (cfg : Config) : Nat → RefGraph → List Choice → List PGraph
  | 0, _, _ => []
  | _ + 1, _, [] => []
  | _ + 1, [], _ :: _ => []
  | f + 1, ls :: rq, .node i subs :: q =>
    match ls with
    | [name] =>
      match lookup cfg name with
      | none => []
      | some grp =>
        match grp.graphs[i]? with
        | none => []
        | some sg => sg :: chosenQ cfg f (rq ++ refsOf cfg sg.pattern) (q ++ subs)
    | _ => []

/-- the graphs of the configuration chosen by the combination `cs` for `pattern` -/
def chosen (cfg : Config) (pattern : Graph) (cs : Combo) : List PGraph :=
  chosenQ cfg (sizeL cs) (refsOf cfg pattern) cs

/-- symbols of the pattern and of all chosen graphs (the "#" of every replaced label node included) -/
def chosenSymbols (cfg : Config) (pattern : Graph) (cs : Combo) : List String :=
  symbolsOf pattern ++ (chosen cfg pattern cs).flatMap fun sg => symbolsOf sg.pattern

/-- bond labels of the pattern and of all chosen graphs -/
def chosenBonds (cfg : Config) (pattern : Graph) (cs : Combo) : List Label :=
  bondLabelsOf pattern ++ (chosen cfg pattern cs).flatMap fun sg => bondLabelsOf sg.pattern

/-- bond labels lost with nodes that the combination replaces by the empty pattern: the bonds incident to such a node at
    the moment it is substituted (they may have been re-attached to it by earlier substitutions, so this part is read
    off the combination's own expansion, not off the configuration alone; it is `[]` when no chosen graph is empty) -/
def droppedBonds (cfg : Config) (pattern : Graph) (cs : Combo) : List Label := (expandT cfg pattern cs).2.dropped

/-- no pattern of the configuration is empty -/
def noEmptyPattern (cfg : Config) : Bool := cfg.all fun grp => grp.graphs.all fun pg => !pg.pattern.nodes.isEmpty

end C14
