import FGVerif.Model.C13
/-!
  C14 — model of proxy expansion (`fgutils/proxy.py`): `_get_next_group_node`, `replace_next_node`
  (289-327), `build_graphs` (330-358), `Proxy.__generate` (451-466) with the `unique` core sampler
  and non-restricting group samplers (`GraphSampler(unique=False)` returns all graphs).

  A configuration is the *effective* `dict[str, ProxyGroup]` the proxy holds, in dict order; every
  pattern enters as data (parsed by the real parser at offset 0, see Model/C13.lean).
  `graph.copy()` in `replace_next_node` is not modelled: `replace_node` re-adds every edge in
  `edges` order anyway (compose) and that re-adding is idempotent (validated by the exact
  correspondence of C13/C14).  No Mathlib.
-/
namespace C14
open C13

structure PGraph where
  pattern : Graph
  anchors : List Nat
deriving Inhabited

structure Group where
  key : String          -- dictionary key
  name : String         -- `group.name`
  graphs : List PGraph
deriving Inhabited

abbrev Config := List Group

inductive Err where
  | runtime   -- "Multiple group labels found on node"
  | value     -- dictionary key does not match group name
  | fuel      -- the model's fuel ran out (cyclic configuration: Python would not terminate)
deriving DecidableEq, Repr

def lookup (cfg : Config) (k : String) : Option Group := cfg.find? (·.key == k)

/-- `[lbl for lbl in d[LABELS_KEY] if lbl in groups.keys()]` for a node with `is_labeled` -/
def groupLabels (cfg : Config) (a : NodeAttr) : List String :=
  if a.isLabeled.getD false then (a.labels.getD []).filter fun l => (lookup cfg l).isSome else []

/-- `_is_group_node` -/
def isGroupNode (cfg : Config) (a : NodeAttr) : Bool := !(groupLabels cfg a).isEmpty

/-- `_get_next_group_node`: first node in node order that carries a configured group label -/
def nextGroupNode (cfg : Config) (g : Graph) : Option (Int × NodeAttr) :=
  g.nodes.find? fun p => isGroupNode cfg p.2

/-- `replace_next_node`: `none` = no group node left -/
def replaceNextNode (cfg : Config) (g : Graph) : Except Err (Option (List Graph)) :=
  match nextGroupNode cfg g with
  | none => .ok none
  | some (anchor, a) =>
    match groupLabels cfg a with
    | [name] =>
      match lookup cfg name with
      | some grp =>
        if grp.name != name then .error .value
        else .ok (some (grp.graphs.map fun sg => replaceNode g anchor sg.pattern sg.anchors))
      | none => .error .runtime
    | _ => .error .runtime

/-- one pass of the `for ws_graph in working_set` loop: (finished graphs, next working set) -/
def step (cfg : Config) : List Graph → Except Err (List Graph × List Graph)
  | [] => .ok ([], [])
  | g :: rest => do
      let r ← replaceNextNode cfg g
      let (done, next) ← step cfg rest
      match r with
      | none => pure (g :: done, next)
      | some gs => pure (done, gs ++ next)

/-- `while len(working_set) > 0` -/
def buildLoop (cfg : Config) : Nat → List Graph → List Graph → Except Err (List Graph)
  | 0, ws, res => if ws.isEmpty then .ok res else .error .fuel
  | fuel + 1, ws, res =>
      if ws.isEmpty then .ok res
      else do
        let (done, next) ← step cfg ws
        buildLoop cfg fuel next (res ++ done)

/-- `build_graphs(core, groups, parser)`; `core` is the parsed core pattern -/
def buildGraphs (cfg : Config) (fuel : Nat) (core : Graph) : Except Err (List Graph) :=
  buildLoop cfg fuel [core] []

/-- `graph.nodes[n][AAM_KEY] = n + 1` -/
def setAam (g : Graph) : Graph :=
  { g with nodes := g.nodes.map fun p => (p.1, { p.2 with aam := some (p.1 + 1) }) }

/-- `nx.Graph(multigraph)`: nodes in order; edges re-added in `edges` order into a simple graph, so
    of parallel bonds the data of the last key survives -/
def collapse (g : Graph) : Graph :=
  let r : Graph := { multi := false, nodes := g.nodes, adj := g.nodes.map fun n => (n.1, []) }
  addEdgesFrom r (g.edges.map fun e => (e.1, e.2.1, 0, e.2.2.2))

def finish (enableAam : Bool) (g : Graph) : Graph :=
  let g := if enableAam then setAam g else g
  if g.multi then collapse g else g

/-- `Proxy.__generate` with the `unique` core sampler: every core graph once, in order -/
def generate (cfg : Config) (fuel : Nat) (enableAam : Bool) : List Graph → Except Err (List Graph)
  | [] => .ok []
  | core :: rest => do
      let gs ← buildGraphs cfg fuel core
      let more ← generate cfg fuel enableAam rest
      pure (gs.map (finish enableAam) ++ more)

/-! ### the counting formula -/

def prod : List Nat → Nat
  | [] => 1
  | x :: xs => x * prod xs

/-- a configuration reduced to what the count depends on: per group (key), per graph, the group
    labels of its group nodes in node order (one list per node) -/
abbrev RefGraph := List (List String)
abbrev RefConfig := List (String × List RefGraph)

/-- the group labels of the group nodes of `g`, in node order -/
def refsOf (cfg : Config) (g : Graph) : RefGraph :=
  (g.nodes.map fun p => groupLabels cfg p.2).filter fun ls => !ls.isEmpty

def toRef (cfg : Config) : RefConfig :=
  cfg.map fun grp => (grp.key, grp.graphs.map fun pg => refsOf cfg pg.pattern)

/-- a group node must carry exactly one group label (otherwise `RuntimeError`: no results) -/
def oneLabel (f : String → Nat) : List String → Nat
  | [l] => f l
  | _ => 0

/-- number of expansions of a group: sum over its graphs of the product over the graph's group
    nodes; `d` bounds the nesting depth -/
def groupExp (rc : RefConfig) : Nat → String → Nat
  | 0, _ => 0
  | d + 1, name =>
    match rc.find? (·.1 == name) with
    | none => 0
    | some grp => (grp.2.map fun rg => prod (rg.map (oneLabel (groupExp rc d)))).sum

/-- number of expansions of a pattern: product over its group nodes -/
def nodesExp (rc : RefConfig) (d : Nat) (rg : RefGraph) : Nat := prod (rg.map (oneLabel (groupExp rc d)))

def graphsExp (rc : RefConfig) (d : Nat) (gs : List RefGraph) : Nat := (gs.map (nodesExp rc d)).sum

/-- depth that suffices for an acyclic configuration -/
def depthOf (rc : RefConfig) : Nat := rc.length + 1

/-- `numExp`: product over the group nodes of the sum over the group's graphs, recursively -/
def numExp (cfg : Config) (g : Graph) : Nat :=
  nodesExp (toRef cfg) (depthOf (toRef cfg)) (refsOf cfg g)

def totalExpRef (rc : RefConfig) (cores : List RefGraph) : Nat :=
  graphsExp rc (depthOf rc) cores

def totalExp (cfg : Config) (cores : List Graph) : Nat :=
  totalExpRef (toRef cfg) (cores.map (refsOf cfg))

/-- executable acyclicity: ranks computed by `depth` rounds of relaxation; every reference must
    point to a group of smaller rank.  (`rankOf` = length of the longest reference chain.) -/
def rankOf (rc : RefConfig) : Nat → String → Option Nat
  | 0, _ => none
  | d + 1, name =>
    match rc.find? (·.1 == name) with
    | none => some 0
    | some grp =>
      (grp.2.flatMap fun rg => rg.flatMap id).foldl
        (fun acc l => match acc, rankOf rc d l with
          | some a, some b => some (max a (b + 1))
          | _, _ => none) (some 0)

/-- ranks as data (a certificate): the longest reference chain below each group -/
def ranksOf (rc : RefConfig) : List (String × Nat) :=
  rc.map fun grp => (grp.1, (rankOf rc (depthOf rc) grp.1).getD 0)

def rankFn (ranks : List (String × Nat)) (l : String) : Nat :=
  ((ranks.find? (·.1 == l)).map (·.2)).getD 0

/-- the inequalities that make `ranks` a witness of acyclicity: every group's rank is below the
    number of groups and every reference points to a group of strictly smaller rank -/
def acyclicWith (ranks : List (String × Nat)) (rc : RefConfig) : Bool :=
  rc.all fun grp =>
    decide (rankFn ranks grp.1 < rc.length) &&
    grp.2.all fun rg => rg.all fun ls => ls.all fun l => decide (rankFn ranks l < rankFn ranks grp.1)

/-- executable acyclicity of a configuration -/
def acyclicB (rc : RefConfig) : Bool := acyclicWith (ranksOf rc) rc

/-! ### what the results must look like -/

def noGroupLabelLeft (cfg : Config) (g : Graph) : Bool := (nextGroupNode cfg g).isNone

/-- symbols of a graph (as a list; compared as a multiset) -/
def symbolsOf (g : Graph) : List String := g.nodes.map fun p => p.2.symbol.getD ""

/-- bond labels of a graph (one per bond; compared as a multiset) -/
def bondLabelsOf (g : Graph) : List Label := g.edges.map fun e => e.2.2.2

/-- every pattern of the configuration is a well-formed graph on ids `0..m-1` with anchors inside -/
def cfgOk (cfg : Config) : Bool :=
  cfg.all fun grp => grp.name == grp.key && grp.graphs.all fun pg =>
    wf pg.pattern && contiguous pg.pattern && anchorsOk pg.pattern pg.anchors

/-- no group node carries a self-loop (Python's re-attachment loop would raise on it) -/
def noLoopOnGroupNodes (cfg : Config) (g : Graph) : Bool :=
  g.nodes.all fun p => !(isGroupNode cfg p.2 && g.hasEdge p.1 p.1)

/-- every pattern is of the same graph kind as the core and has no self-loop on a group node -/
def cfgEdgeOk (cfg : Config) (multi : Bool) : Bool :=
  cfg.all fun grp => grp.graphs.all fun pg => pg.pattern.multi == multi && noLoopOnGroupNodes cfg pg.pattern

/-- group nodes carry the symbol "#" (what the parser gives a label node) -/
def hashOk (cfg : Config) (g : Graph) : Bool :=
  g.nodes.all fun p => !isGroupNode cfg p.2 || p.2.symbol == some "#"

/-- all decidable hypotheses of the C14 theorems about a configuration and a core graph -/
def hypothesesOk (cfg : Config) (core : Graph) : Bool :=
  cfgOk cfg && cfgEdgeOk cfg core.multi && acyclicB (toRef cfg) &&
  hashOk cfg core && (cfg.all fun grp => grp.graphs.all fun pg => hashOk cfg pg.pattern) &&
  wf core && contiguous core && noLoopOnGroupNodes cfg core

/-! ### traced expansion: the same loop, every working graph carries the patterns chosen so far
    (their symbols and bond labels) and the bonds lost to empty patterns -/

structure Trace where
  symbols : List String := []       -- symbols of the chosen patterns (core included)
  bonds : List Label := []          -- bond labels of the chosen patterns (core included)
  replaced : Nat := 0               -- number of replaced label nodes (each removes one "#")
  dropped : List Label := []        -- bonds of nodes replaced by the empty pattern
deriving Inhabited

def replaceNextNodeT (cfg : Config) (gt : Graph × Trace) : Except Err (Option (List (Graph × Trace))) :=
  match nextGroupNode cfg gt.1 with
  | none => .ok none
  | some (anchor, a) =>
    match groupLabels cfg a with
    | [name] =>
      match lookup cfg name with
      | some grp =>
        if grp.name != name then .error .value
        else .ok (some (grp.graphs.map fun sg =>
          (replaceNode gt.1 anchor sg.pattern sg.anchors,
           { symbols := gt.2.symbols ++ symbolsOf sg.pattern
             bonds := gt.2.bonds ++ bondLabelsOf sg.pattern
             replaced := gt.2.replaced + 1
             dropped := if sg.pattern.nodes.isEmpty
                        then gt.2.dropped ++ (gt.1.edgesOf anchor).map (·.2.2.2) else gt.2.dropped })))
      | none => .error .runtime
    | _ => .error .runtime

def stepT (cfg : Config) : List (Graph × Trace) → Except Err (List (Graph × Trace) × List (Graph × Trace))
  | [] => .ok ([], [])
  | g :: rest => do
      let r ← replaceNextNodeT cfg g
      let (done, next) ← stepT cfg rest
      match r with
      | none => pure (g :: done, next)
      | some gs => pure (done, gs ++ next)

def buildLoopT (cfg : Config) : Nat → List (Graph × Trace) → List (Graph × Trace) → Except Err (List (Graph × Trace))
  | 0, ws, res => if ws.isEmpty then .ok res else .error .fuel
  | fuel + 1, ws, res =>
      if ws.isEmpty then .ok res
      else do
        let (done, next) ← stepT cfg ws
        buildLoopT cfg fuel next (res ++ done)

def buildGraphsT (cfg : Config) (fuel : Nat) (core : Graph) : Except Err (List (Graph × Trace)) :=
  buildLoopT cfg fuel [(core, { symbols := symbolsOf core, bonds := bondLabelsOf core })] []

/-- conservation for one result: symbols = chosen patterns' symbols minus one "#" per replaced
    node; bond labels = chosen patterns' bonds minus the dropped ones (as multisets) -/
def conservedB (gt : Graph × Trace) : Bool :=
  (symbolsOf gt.1 ++ List.replicate gt.2.replaced "#").isPerm gt.2.symbols &&
  (bondLabelsOf gt.1 ++ gt.2.dropped).isPerm gt.2.bonds

/-! ### conservation at the `iter(Proxy)` level: the side condition and the traced enumeration -/

/-- no parallel bonds: every adjacency entry carries at most one key, so `nx.Graph(multigraph)`
    has nothing to collapse -/
def noParallel (g : Graph) : Bool := g.adj.all fun r => r.2.all fun e => decide (e.2.length ≤ 1)

/-- side condition of bond conservation at the `iter(Proxy)` level for a `build_graphs` result: a simple
    graph is returned as it is; a multigraph must not carry parallel bonds -/
def sideOk (g : Graph) : Bool := !g.multi || noParallel g

/-- `Proxy.__generate`, traced: every sample comes with the `build_graphs` result it was finished from
    and the trace of the patterns chosen along its combination -/
def generateT (cfg : Config) (fuel : Nat) (enableAam : Bool) : List Graph → Except Err (List (Graph × Graph × Trace))
  | [] => .ok []
  | core :: rest => do
      let ts ← buildGraphsT cfg fuel core
      let more ← generateT cfg fuel enableAam rest
      pure (ts.map (fun gt => (gt.1, finish enableAam gt.1, gt.2)) ++ more)

/-- conservation for one sample of `iter(Proxy)`: symbols always; bond labels when the side condition
    holds for the `build_graphs` result the sample was finished from -/
def conservedIterB (r : Graph × Graph × Trace) : Bool :=
  (symbolsOf r.2.1 ++ List.replicate r.2.2.replaced "#").isPerm r.2.2.symbols &&
  (!sideOk r.1 || (bondLabelsOf r.2.1 ++ r.2.2.dropped).isPerm r.2.2.bonds)

end C14
