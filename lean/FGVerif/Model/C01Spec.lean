import FGVerif.Model.C01
/-!
  C01 — the specification: the documented syntax as a syntax tree (`Chain` / `Items`), its
  rendering (`render` / `renderStr`), its compositional denotation (`denote`, with a
  *declarative* ring pairing: the 2m−1-th with the 2m-th occurrence of the same ring id in
  textual order) and the decidable side condition `WF` that makes a tree a valid writing.
  Nothing here refers to the parser's cursor machine.  No Mathlib.
-/
namespace C01

/-- a written bond: one of the bond characters, or a reaction-centre bond `<g,h>` (digit strings,
    possibly empty) -/
inductive Bond where
  | sym (c : Char)
  | rc (g h : Str)
deriving DecidableEq, Repr, Inhabited

/-- an atom: element symbol, wildcard `R`, or a label node `{l1,…,lk}` -/
inductive AtomTok where
  | elem (s : Str)
  | wild
  | labels (ls : List Str)
deriving DecidableEq, Repr, Inhabited

mutual
  /-- an atom followed by its ring marks, branches and (last) the continuation of the chain -/
  inductive Chain where
    | mk (a : AtomTok) (items : Items)
  inductive Items where
    | nil
    | ring (b : Option Bond) (id : Str) (rest : Items)
    | branch (b : Option Bond) (c : Chain) (rest : Items)
    | next (b : Option Bond) (c : Chain)
end

instance : Inhabited Chain := ⟨.mk .wild .nil⟩

/-! ### rendering -/

def joinComma : List Str → Str
  | [] => []
  | [x] => x
  | x :: y :: xs => x ++ ',' :: joinComma (y :: xs)

def Bond.tok : Bond → Token
  | .sym c => .bond [c]
  | .rc g h => .rc g h

def optTok : Option Bond → List Token
  | none => []
  | some b => [b.tok]

def AtomTok.tok : AtomTok → Token
  | .elem s => .atom s
  | .wild => .wild
  | .labels ls => .label (joinComma ls)

mutual
  def Chain.render : Chain → List Token
    | .mk a its => a.tok :: its.render
  def Items.render : Items → List Token
    | .nil => []
    | .ring b id r => optTok b ++ .ring id :: r.render
    | .branch b c r => .bstart :: (optTok b ++ (c.render ++ .bend :: r.render))
    | .next b c => optTok b ++ c.render
end

/-- the text of a token -/
def Token.chars : Token → Str
  | .atom s => s
  | .bond s => s
  | .bstart => ['(']
  | .bend => [')']
  | .ring d => d
  | .wild => ['R']
  | .rc g h => '<' :: (g ++ ',' :: (h ++ ['>']))
  | .label b => '{' :: (b ++ ['}'])
  | .mismatch c => [c]

def tokensChars (ts : List Token) : Str := ts.flatMap Token.chars

def renderChars (c : Chain) : Str := tokensChars c.render
def renderStr (c : Chain) : String := String.ofList (renderChars c)

/-! ### denotation -/

/-- the node symbol of an atom (`#` for label nodes) -/
def AtomTok.sym : AtomTok → Str
  | .elem s => s
  | .wild => ['R']
  | .labels _ => ['#']

def AtomTok.labelList : AtomTok → List Str
  | .labels ls => ls
  | _ => []

def AtomTok.isLabeled : AtomTok → Bool
  | .labels _ => true
  | _ => false

/-- written in lower case (aromatic) -/
def AtomTok.low (a : AtomTok) : Bool := isLowerPy a.sym

/-- what the text says, in textual order; atoms are numbered 0,1,2,… in textual order -/
inductive Ev where
  | node (i : Nat) (a : AtomTok)
  /-- chain / branch bond from atom `u` to the next atom `v`; `low` = both written in lower case -/
  | link (u v : Nat) (low : Bool) (b : Option Bond)
  /-- ring mark `id` on atom `u` (written in lower case: `lowU`), with the bond written before it -/
  | mark (u : Nat) (lowU : Bool) (b : Option Bond) (id : Str)
deriving DecidableEq, Repr

mutual
  def Chain.size : Chain → Nat
    | .mk _ its => its.size + 1
  def Items.size : Items → Nat
    | .nil => 0
    | .ring _ _ r => r.size
    | .branch _ c r => c.size + r.size
    | .next _ c => c.size
end

mutual
  /-- `n` = number of atoms written before this chain; `par` = the atom this chain hangs on, whether
      that atom is lower-case, and the bond written in between -/
  def Chain.events (n : Nat) (par : Option (Nat × Bool × Option Bond)) : Chain → List Ev
    | .mk a its =>
      .node n a ::
        ((match par with
          | none => []
          | some (p, lowP, b) => [Ev.link p n (lowP && a.low) b]) ++ its.events (n + 1) n a.low)
  def Items.events (n u : Nat) (lowU : Bool) : Items → List Ev
    | .nil => []
    | .ring b id r => .mark u lowU b id :: r.events n u lowU
    | .branch b c r => c.events n (some (u, lowU, b)) ++ r.events (n + c.size) u lowU
    | .next b c => c.events n (some (u, lowU, b))
end

/-- events after the ring marks have been paired -/
inductive REv where
  | node (i : Nat) (a : AtomTok)
  | edge (u v : Nat) (low : Bool) (b : Option Bond)
deriving DecidableEq, Repr

/-- the earlier marks with ring id `id`, most recent first (`seen` = all earlier marks, most
    recent first) -/
def occurrences (id : Str) (seen : List (Str × Nat × Bool)) : List (Nat × Bool) :=
  (seen.filter (fun e => e.1 == id)).map (·.2)

/-- declarative ring pairing: a mark closes a ring iff an odd number of marks with the same id
    precede it, and then its partner is the most recent of them (so the 2m−1-th occurrence is paired
    with the 2m-th); the bond is the one written at the closing occurrence -/
def resolveFrom (seen : List (Str × Nat × Bool)) : List Ev → List REv
  | [] => []
  | .node i a :: r => .node i a :: resolveFrom seen r
  | .link u v low b :: r => .edge u v low b :: resolveFrom seen r
  | .mark u lowU b id :: r =>
    (match occurrences id seen with
     | (p, lowP) :: rest => if rest.length % 2 = 0 then [REv.edge u p (lowU && lowP) b] else []
     | [] => []) ++ resolveFrom ((id, u, lowU) :: seen) r

def resolve (evs : List Ev) : List REv := resolveFrom [] evs

/-- the declared order of a bond character (doubled), from the generated `bond_to_order_map` -/
def bondOrder? (c : Char) : Option Int := bondTable.lookup [c]

/-- the label of an edge, `none` = no edge.  No symbol: aromatic iff both atoms lower-case, else
    single; `.` (order 0): no edge; in an ITS pattern every scalar order `o` becomes `(o,o)` -/
def labelOf (its low : Bool) : Option Bond → Option Label
  | none => some (liftOrder its (.s (if low then 3 else 2)))
  | some (.sym c) =>
    match bondOrder? c with
    | some o => if o = 0 then none else some (liftOrder its (.s o))
    | none => none
  | some (.rc g h) => some (.p (rcVal g) (rcVal h))

def Bond.isRc : Bond → Bool
  | .rc _ _ => true
  | _ => false

def optIsRc : Option Bond → Bool
  | some b => b.isRc
  | none => false

mutual
  /-- some `<g,h>` occurs -/
  def Chain.hasRc : Chain → Bool
    | .mk _ its => its.hasRc
  def Items.hasRc : Items → Bool
    | .nil => false
    | .ring b _ r => optIsRc b || r.hasRc
    | .branch b c r => optIsRc b || (c.hasRc || r.hasRc)
    | .next b c => optIsRc b || c.hasRc
end

def nodeAttr (aam : Bool) (off : Int) (i : Nat) (a : AtomTok) : NodeAttr :=
  { symbol := some (String.ofList a.sym), labels := some (a.labelList.map String.ofList),
    isLabeled := some a.isLabeled, aam := if aam then some ((i : Int) + off + 1) else none }

def applyREv (its aam : Bool) (off : Int) (g : Graph) : REv → Graph
  | .node i a => g.addNode ((i : Int) + off) (nodeAttr aam off i a)
  | .edge u v low b =>
    match labelOf its low b with
    | some l => g.addEdge ((u : Int) + off) ((v : Int) + off) l
    | none => g

def buildGraph (its aam : Bool) (off : Int) (g : Graph) (evs : List REv) : Graph :=
  evs.foldl (applyREv its aam off) g

/-- the graph the text denotes (as networkx would hold it when nodes and edges are added in
    textual order) -/
def denote (c : Chain) (off : Int) (aam multi : Bool) : Graph :=
  buildGraph c.hasRc aam off { multi := multi } (resolve (c.events 0 none))

/-! #### abstract reading: node list and edge list -/

def revNodes (aam : Bool) (off : Int) : List REv → List (Int × NodeAttr)
  | [] => []
  | .node i a :: r => ((i : Int) + off, nodeAttr aam off i a) :: revNodes aam off r
  | .edge .. :: r => revNodes aam off r

def revEdges (its : Bool) (off : Int) : List REv → List (Int × Int × Label)
  | [] => []
  | .node .. :: r => revEdges its off r
  | .edge u v low b :: r =>
    match labelOf its low b with
    | some l => ((u : Int) + off, (v : Int) + off, l) :: revEdges its off r
    | none => revEdges its off r

/-- one node per atom in textual order, numbered from `off` -/
def denoteNodes (c : Chain) (off : Int) (aam : Bool) : List (Int × NodeAttr) :=
  revNodes aam off (resolve (c.events 0 none))

/-- one edge per written bond, in textual order -/
def denoteEdges (c : Chain) (off : Int) : List (Int × Int × Label) :=
  revEdges c.hasRc off (resolve (c.events 0 none))

/-! ### well-formedness -/

def isDigits (s : Str) : Bool := s.all Char.isDigit

/-- a token that can come out of a valid writing -/
def tokOK : Token → Bool
  | .atom s => atomAlts.contains s
  | .bond s =>
    match s with
    | [c] => (bondOrder? c).isSome
    | _ => false
  | .bstart => true
  | .bend => true
  | .ring d => !d.isEmpty && isDigits d
  | .wild => true
  | .rc g h => isDigits g && isDigits h
  | .label b => !b.isEmpty && b.all isLabelChar
  | .mismatch _ => false

/-- may token `t` be followed by a text starting with `c`?  (`S` followed by `n` would be read as
    tin; a ring number followed by a digit would fuse) -/
def sepOK (t : Token) (c : Option Char) : Bool :=
  match t with
  | .atom s => decide (firstAlt .atom atomAlts (s ++ c.toList) = .hit (.atom s) c.toList)
  | .ring _ =>
    match c with
    | some c => !c.isDigit
    | none => true
  | _ => true

def tokensOK : List Token → Bool
  | [] => true
  | t :: ts => tokOK t && sepOK t (tokensChars ts).head? && tokensOK ts

/-- label texts are non-empty over `[A-Za-z0-9_-]` -/
def AtomTok.ok : AtomTok → Bool
  | .labels ls => !ls.isEmpty && ls.all (fun l => !l.isEmpty && l.all (fun c => isLabelChar c && c != ','))
  | _ => true

mutual
  def Chain.atomsOK : Chain → Bool
    | .mk a its => a.ok && its.atomsOK
  def Items.atomsOK : Items → Bool
    | .nil => true
    | .ring _ _ r => r.atomsOK
    | .branch _ c r => c.atomsOK && r.atomsOK
    | .next _ c => c.atomsOK
end

/-- a bond symbol is written on a ring mark only at a closing occurrence -/
def marksOKFrom (seen : List (Str × Nat × Bool)) : List Ev → Bool
  | [] => true
  | .mark u lowU b id :: r =>
    (b.isNone || (occurrences id seen).length % 2 = 1) && marksOKFrom ((id, u, lowU) :: seen) r
  | _ :: r => marksOKFrom seen r

def markIds : List Ev → List Str
  | [] => []
  | .mark _ _ _ id :: r => id :: markIds r
  | _ :: r => markIds r

/-- every ring id occurs an even number of times (every ring is closed) -/
def ringsClosed (evs : List Ev) : Bool :=
  let ids := markIds evs
  ids.all fun id => (ids.filter (· == id)).length % 2 = 0

/-- no atom is bonded to itself; no pair of atoms is bonded twice -/
def pairsDistinct : List (Int × Int × Label) → Bool
  | [] => true
  | (u, v, _) :: r => u != v && r.all (fun e => !((e.1 == u && e.2.1 == v) || (e.1 == v && e.2.1 == u))) && pairsDistinct r

def noSelfLoops (es : List (Int × Int × Label)) : Bool := es.all fun e => e.1 != e.2.1

/-- what the parse theorem needs: the writing lexes back, labels are label texts, a bonded ring mark
    closes a ring -/
def WFcore (c : Chain) : Bool :=
  tokensOK c.render && c.atomsOK && marksOKFrom [] (c.events 0 none)

/-- a valid writing of a (multi)graph: `WFcore`, all rings closed, no self-bond, and no pair of atoms
    bonded twice unless the graph is a multigraph -/
def WF (multi : Bool) (c : Chain) : Bool :=
  WFcore c && ringsClosed (c.events 0 none) &&
    (if multi then noSelfLoops (denoteEdges c 0) else pairsDistinct (denoteEdges c 0))

end C01
