import FGVerif.Model.Graph
/-!
  C13 — model of `fgutils.proxy.replace_node` / `relabel_graph` (proxy.py:11-15, 263-286).

  The networkx operations the function uses are mirrored here on `Graph` (Model/Graph.lean):

  * `addEdgeKey`   `MultiGraph.add_edge(u, v, key=k, **d)` / `Graph.add_edge(u, v, **d)` (key 0)
  * `addEdgeNew`   `add_edge(u, v, **d)` on a multigraph: key from `new_edge_key`
  * `compose`      `nx.compose(G, H)` = `compose_all([G, H])`: for each graph, `add_nodes_from`
                   its nodes, then `add_edges_from` its `edges(keys=True, data=True)`.  Re-adding in
                   `G.edges` order permutes the adjacency rows; that is observable in the k-th-bond rule.
  * `relabelCopy`  `nx.relabel_nodes(g, mapping)` with `copy=True` (`_relabel_copy`) for an injective
                   mapping (the key-conflict loop of `_relabel_copy` cannot fire then and is not modelled)
  * `Graph.removeNode` (shared)

  The parsed sub-pattern enters as data: the harness parses the pattern with the real parser at
  `idx_offset = 0`; `parse(p, idx_offset = k)` is `shiftGraph (parse p) k` (assumed contract, part of
  C01's theorem; the harness checks it on every pattern it uses).

  Also here: the declarative description of the result (`specNodes`, `specLabels`, `incSpec`) and
  its executable checker `specCheck` for parents on ids `0..n-1`, and `specNodesIds` / `specCheckIds` for
  parents with ARBITRARY ids (`inDomainIds`); the driver applies them to implementation outputs.
  No Mathlib.
-/
namespace C13
open Graph

abbrev KeyDict := List (Nat × Label)
abbrev Row := List (Int × KeyDict)
abbrev Edge := Int × Int × Nat × Label

/-- `datadict.update(attr)`: a missing `bond` does not erase an existing one -/
def mergeLabel (old new : Label) : Label := if new == Label.nil then old else new

/-- `keydict[key] = datadict.update(attr)`: an existing key keeps its position -/
def setKey (kd : KeyDict) (k : Nat) (l : Label) : KeyDict :=
  if kd.any (·.1 == k) then kd.map (fun e => if e.1 == k then (e.1, mergeLabel e.2 l) else e)
  else kd ++ [(k, l)]

/-- one direction of `add_edge(u, v, key)`: row of `u` gets neighbour `v` -/
def halfEdge (row : Row) (v : Int) (k : Nat) (l : Label) : Row :=
  if row.any (·.1 == v) then row.map (fun r => if r.1 == v then (r.1, setKey r.2 k l) else r)
  else row ++ [(v, [(k, l)])]

/-- `if u not in self._adj: … self._node[u] = {}` -/
def ensureNode (g : Graph) (u : Int) : Graph := if g.hasNode u then g else g.addNode u {}

def updRow (adj : List (Int × Row)) (u v : Int) (k : Nat) (l : Label) : List (Int × Row) :=
  adj.map fun r => if r.1 == u then (r.1, halfEdge r.2 v k l) else r

/-- `add_edge(u, v, key=k, bond=l)` -/
def addEdgeKey (g : Graph) (u v : Int) (k : Nat) (l : Label) : Graph :=
  let g := ensureNode (ensureNode g u) v
  let adj := updRow g.adj u v k l
  let adj := if u == v then adj else updRow adj v u k l
  { g with adj := adj }

/-- `key = len(keydict); while key in keydict: key += 1` (the loop ends at the latest one past the
    largest key, which is what the fuel says) -/
def freshFrom (ks : List Nat) : Nat → Nat → Nat
  | 0, k => k
  | fuel + 1, k => if ks.contains k then freshFrom ks fuel (k + 1) else k

def newEdgeKey (ks : List Nat) : Nat := freshFrom ks (ks.foldl max 0 + 1 - ks.length) ks.length

/-- `add_edge(u, v, bond=l)` without a key -/
def addEdgeNew (g : Graph) (u v : Int) (l : Label) : Graph :=
  addEdgeKey g u v (if g.multi then newEdgeKey ((g.edgeData u v).map (·.1)) else 0) l

def addNodesFrom (r : Graph) (ns : List (Int × NodeAttr)) : Graph :=
  ns.foldl (fun r n => r.addNode n.1 n.2) r

def addEdgesFrom (r : Graph) (es : List Edge) : Graph :=
  es.foldl (fun r e => addEdgeKey r e.1 e.2.1 e.2.2.1 e.2.2.2) r

/-- `nx.compose(G, H)` -/
def compose (g h : Graph) : Graph :=
  let r : Graph := { multi := g.multi }
  let r := addEdgesFrom (addNodesFrom r g.nodes) g.edges
  addEdgesFrom (addNodesFrom r h.nodes) h.edges

/-- `parser.parse(pattern, idx_offset=k)` from the parse at offset 0 (assumed contract of C01) -/
def shiftGraph (h : Graph) (k : Int) : Graph :=
  { h with nodes := h.nodes.map (fun n => (n.1 + k, n.2))
           adj := h.adj.map fun r => (r.1 + k, r.2.map fun e => (e.1 + k, e.2)) }

/-- `anchor[i]` with the clamp `if len(anchor) <= i: anchor_idx = len(anchor) - 1` -/
def anchorAt (anchors : List Nat) (i : Nat) : Nat :=
  anchors.getD (if anchors.length ≤ i then anchors.length - 1 else i) 0

/-- the loop `for i, (_, v, d) in enumerate(graph.edges(node, data=True)): graph.add_edge(off + anchor[…], v, **d)`.
    The incident edges are a snapshot: the loop never changes the row of `node` (a self-loop on
    `node` makes Python raise "dictionary changed size"; such parents are outside the domain). -/
def reattachLoop (off : Int) (anchors : List Nat) : Graph → List (Edge × Nat) → Graph
  | g, [] => g
  | g, (e, i) :: rest =>
      reattachLoop off anchors (addEdgeNew g (off + (anchorAt anchors i : Nat)) e.2.1 e.2.2.2) rest

def reattach (g : Graph) (node off : Int) (anchors : List Nat) : Graph :=
  reattachLoop off anchors g (g.edgesOf node).zipIdx

/-- insertion into an ascending list (`sorted`) -/
def insertAsc (x : Int) : List Int → List Int
  | [] => [x]
  | y :: ys => if x ≤ y then x :: y :: ys else y :: insertAsc x ys

def sortAsc (l : List Int) : List Int := l.foldr insertAsc []

/-- `mapping[u] = i + offset for i, u in enumerate(sorted(g.nodes))` -/
def relabelMapping (g : Graph) (offset : Int) : List (Int × Int) :=
  (sortAsc g.nodeIds).zipIdx.map fun p => (p.1, (p.2 : Int) + offset)

/-- `mapping.get(n, n)` -/
def mapId (m : List (Int × Int)) (u : Int) : Int :=
  match m.find? (·.1 == u) with
  | some p => p.2
  | none => u

/-- `_relabel_copy(G, mapping)` for an injective mapping: nodes in `G`'s order under their new
    names with (copies of) their attributes, edges re-added in `G.edges` order with their keys -/
def relabelCopy (g : Graph) (m : List (Int × Int)) : Graph :=
  let nodes := g.nodes.map fun n => (mapId m n.1, n.2)
  let r : Graph := { multi := g.multi, nodes := nodes, adj := nodes.map fun n => (n.1, []) }
  addEdgesFrom r (g.edges.map fun e => (mapId m e.1, mapId m e.2.1, e.2.2.1, e.2.2.2))

/-- `relabel_graph(g, offset)` -/
def relabelGraph (g : Graph) (offset : Int) : Graph := relabelCopy g (relabelMapping g offset)

/-- the body of `replace_node` once `idx_offset` has been computed; `sub` is the pattern parsed at offset 0 -/
def replaceNodeAt (idxOffset : Int) (graph : Graph) (node : Int) (sub : Graph) (anchors : List Nat) : Graph :=
  let h := shiftGraph sub idxOffset
  let graph := compose graph h
  let graph := if h.nodes.length > 0 then reattach graph node idxOffset anchors else graph
  let graph := graph.removeNode node
  relabelGraph graph 0

/-- `max(graph.nodes, default=-1) + 1`: the first id above every id of the graph (`0` for the empty graph) -/
def nextId (g : Graph) : Int :=
  match g.nodeIds with
  | [] => 0
  | y :: ys => ys.foldl max y + 1

/-- `replace_node(graph, node, replacement_graph, parser)` with
    `idx_offset = max(graph.nodes, default=-1) + 1` (the repaired numbering of the inserted sub-pattern) -/
def replaceNode (graph : Graph) (node : Int) (sub : Graph) (anchors : List Nat) : Graph :=
  replaceNodeAt (nextId graph) graph node sub anchors

/-- the function before the repair, `idx_offset = len(graph.nodes)`.  It agrees with `replaceNode` exactly when
    `len(graph.nodes)` is the first free id, in particular on every parent whose ids are a permutation of
    `0..n-1` (`C13.replaceNode_eq_len`); outside that domain `len(graph.nodes)` may be an id in use
    (`C13.len_offset_collides`).  Kept because the proofs for parents on ids `0..n-1` were developed for it; it is
    not compared with any code (where the colliding id is `node` itself, Python's loop raises instead). -/
def replaceNodeLen (graph : Graph) (node : Int) (sub : Graph) (anchors : List Nat) : Graph :=
  replaceNodeAt (graph.nodes.length : Int) graph node sub anchors

/-! ### the declarative description of the result -/

/-- bond labels between `a` and `b` (parallel bonds of a multigraph in key order) -/
def labelsBetween (g : Graph) (a b : Int) : List Label := (g.edgeData a b).map (·.2)

/-- the nodes that precede `x` in node order -/
def before (g : Graph) (x : Int) : List Int := g.nodeIds.takeWhile (· != x)

/-- incident bonds of `x` as `(neighbour, label)` in the order networkx reports them after the
    composition step: first the bonds to neighbours that precede `x` in node order (in node order,
    parallel bonds in key order), then the remaining ones in adjacency order -/
def incSpec (g : Graph) (x : Int) : List (Int × Label) :=
  ((before g x).flatMap fun m => (g.edgeData m x).map fun kd => (m, kd.2))
    ++ ((g.adjRow x).filter fun r => !(before g x).contains r.1).flatMap fun r => r.2.map fun kd => (r.1, kd.2)

/-- new name of a parent node `u ≠ x` (ids `0..n-1`) -/
def ren (x u : Int) : Int := if u < x then u else u - 1
/-- its inverse on the parent range -/
def unren (x a : Int) : Int := if a < x then a else a + 1

/-- all other parent nodes in order with their attributes, then a verbatim copy of the sub-pattern's
    nodes: parent `u ↦ u` or `u − 1`, sub-pattern node `j ↦ n − 1 + j` -/
def specNodes (g : Graph) (x : Int) (sub : Graph) : List (Int × NodeAttr) :=
  ((g.nodes.filter (·.1 != x)).map fun p => (ren x p.1, p.2))
    ++ sub.nodes.map fun p => (p.1 + ((g.nodes.length : Int) - 1), p.2)

/-- labels of the re-attached bonds between parent node `p` (old name) and sub-pattern node `j`
    when the incident bonds of the replaced node are `inc` (in order): the k-th incident bond goes to
    `anchor[min k (|anchor| − 1)]` -/
def crossLabelsOf (inc : List (Int × Label)) (anchors : List Nat) (p j : Int) : List Label :=
  inc.zipIdx.filterMap fun e =>
    if e.1.1 == p && ((anchorAt anchors e.2 : Nat) : Int) == j then some e.1.2 else none

def crossLabels (g : Graph) (x : Int) (anchors : List Nat) (p j : Int) : List Label :=
  crossLabelsOf (incSpec g x) anchors p j

/-- the bonds of the result between new names `a` and `b` -/
def specLabels (g : Graph) (x : Int) (sub : Graph) (anchors : List Nat) (a b : Int) : List Label :=
  let n1 : Int := (g.nodes.length : Int) - 1
  if a < n1 ∧ b < n1 then labelsBetween g (unren x a) (unren x b)
  else if n1 ≤ a ∧ n1 ≤ b then labelsBetween sub (a - n1) (b - n1)
  else if sub.nodes.isEmpty then []
  else if a < n1 then crossLabels g x anchors (unren x a) (b - n1)
  else crossLabels g x anchors (unren x b) (a - n1)

/-! ### well-formedness of a networkx graph (what every real input satisfies) -/

def nodupB : List Int → Bool
  | [] => true
  | x :: xs => !xs.contains x && nodupB xs

def nodupNatB : List Nat → Bool
  | [] => true
  | x :: xs => !xs.contains x && nodupNatB xs

/-- one adjacency row per node in node order; neighbours are nodes, once per row; keys distinct,
    a simple graph has exactly key 0; both directions of an edge carry the same key dict -/
def wf (g : Graph) : Bool :=
  g.adj.map (·.1) == g.nodeIds && nodupB g.nodeIds &&
  g.adj.all fun r =>
    nodupB (r.2.map (·.1)) &&
    r.2.all fun e =>
      g.nodeIds.contains e.1 && nodupNatB (e.2.map (·.1)) && !e.2.isEmpty &&
      (g.multi || e.2.map (·.1) == [0]) && g.edgeData e.1 r.1 == e.2

/-- ids are `0, 1, …, n-1` in node order -/
def contiguous (g : Graph) : Bool := g.nodeIds == (List.range g.nodes.length).map Int.ofNat

def anchorsOk (sub : Graph) (anchors : List Nat) : Bool :=
  sub.nodes.isEmpty || (!anchors.isEmpty && anchors.all fun a => a < sub.nodes.length)

/-- the domain of the property: a well-formed parent on ids `0..n-1` that contains `node` without a
    self-loop, a well-formed sub-pattern on ids `0..m-1`, anchors inside the sub-pattern -/
def inDomain (g : Graph) (x : Int) (sub : Graph) (anchors : List Nat) : Bool :=
  wf g && contiguous g && g.hasNode x && !g.hasEdge x x && wf sub && contiguous sub &&
    anchorsOk sub anchors && sub.multi == g.multi

/-- ids are `0, 1, …, n-1` in ANY node order (what `relabel_graph` guarantees of a graph whose nodes were
    inserted in an arbitrary order: `nx.relabel_nodes` keeps the node order, the ids become ranks) -/
def contiguousAny (g : Graph) : Bool := sortAsc g.nodeIds == (List.range g.nodes.length).map Int.ofNat

/-- the full domain of the property: as `inDomain`, but the ids `0..n-1` of the parent (and `0..m-1` of the
    sub-pattern) may appear in any node order -/
def inDomainAny (g : Graph) (x : Int) (sub : Graph) (anchors : List Nat) : Bool :=
  wf g && contiguousAny g && g.hasNode x && !g.hasEdge x x && wf sub && contiguousAny sub &&
    anchorsOk sub anchors && sub.multi == g.multi

/-! ### executable specification (applied to implementation outputs by the driver) -/

/-- adjacency mentions only nodes -/
def closedB (g : Graph) : Bool :=
  g.adj.all fun r => g.nodeIds.contains r.1 && r.2.all fun e => g.nodeIds.contains e.1

/-- the result has exactly the specified nodes (ids, order, attributes) and, between any two of
    them, exactly the specified bond labels (as a multiset) -/
def specCheck (g : Graph) (x : Int) (sub : Graph) (anchors : List Nat) (out : Graph) : Bool :=
  out.multi == g.multi && out.nodes == specNodes g x sub && closedB out &&
  out.nodeIds.all fun a => out.nodeIds.all fun b =>
    (labelsBetween out a b).isPerm (specLabels g x sub anchors a b)

/-- `relabel_graph(g, offset)` renumbers order-preservingly onto `offset, offset+1, …`: the
    specification is stated with the rank of an id among the ids -/
def rank (ids : List Int) (u : Int) : Int := ((ids.filter (· < u)).length : Int)

def relabelSpecCheck (g : Graph) (offset : Int) (out : Graph) : Bool :=
  let ρ := fun u => rank g.nodeIds u + offset
  out.multi == g.multi && out.nodes == g.nodes.map (fun p => (ρ p.1, p.2)) && closedB out &&
  g.nodeIds.all fun a => g.nodeIds.all fun b =>
    (labelsBetween out (ρ a) (ρ b)).isPerm (labelsBetween g a b)

/-! ### arbitrary node ids (distinct integers in any order: offset, sparse, shuffled, negative)

  `relabel_graph` renumbers by SORTED id, not by node order: a surviving parent node gets its rank among the
  surviving parent ids (the inserted sub-pattern is numbered from `max id + 1`, above every parent id, so it
  does not disturb those ranks and its own nodes rank last, in the order of their parse ids `0..m-1`); the node
  ORDER of the result is inherited: the parent's other nodes in the parent's node order, then the sub-pattern's. -/

/-- the parent's other ids, in node order -/
def surv (g : Graph) (x : Int) : List Int := g.nodeIds.filter (· != x)

/-- new name of a parent node `u ≠ x`: its rank among the surviving parent ids -/
def renIds (g : Graph) (x u : Int) : Int := rank (surv g x) u

/-- all other parent nodes in the parent's node order with their attributes under `u ↦ rank u`, then a verbatim copy
    of the sub-pattern's nodes under `j ↦ n − 1 + j` -/
def specNodesIds (g : Graph) (x : Int) (sub : Graph) : List (Int × NodeAttr) :=
  ((g.nodes.filter (·.1 != x)).map fun p => (renIds g x p.1, p.2))
    ++ sub.nodes.map fun p => (p.1 + ((g.nodes.length : Int) - 1), p.2)

/-- the domain for arbitrary ids: a well-formed parent (`wf` asks the ids to be pairwise distinct and nothing
    else of them) that contains `node` without a self-loop, a well-formed sub-pattern on ids `0..m-1` (what the
    parser yields at offset 0), anchors inside the sub-pattern, same graph kind -/
def inDomainIds (g : Graph) (x : Int) (sub : Graph) (anchors : List Nat) : Bool :=
  wf g && g.hasNode x && !g.hasEdge x x && wf sub && contiguousAny sub &&
    anchorsOk sub anchors && sub.multi == g.multi

/-- executable form of `SpecIds` (Proofs/C13Ids.lean), stated with the OLD names of the nodes: graph kind; node
    list; bonds among surviving parent nodes unchanged; the sub-pattern's bonds copied; between a parent node and
    a sub-pattern node exactly the re-attached bonds (`crossLabels`: k-th incident bond of `node`, in the order
    `incSpec`, to `anchor[min k (|anchor| − 1)]`); the adjacency mentions only nodes (so nothing else exists) -/
def specCheckIds (g : Graph) (x : Int) (sub : Graph) (anchors : List Nat) (out : Graph) : Bool :=
  let n1 : Int := (g.nodes.length : Int) - 1
  out.multi == g.multi && out.nodes == specNodesIds g x sub && closedB out &&
  ((surv g x).all fun u => (surv g x).all fun v =>
    (labelsBetween out (renIds g x u) (renIds g x v)).isPerm (labelsBetween g u v)) &&
  (sub.nodeIds.all fun i => sub.nodeIds.all fun j =>
    (labelsBetween out (i + n1) (j + n1)).isPerm (labelsBetween sub i j)) &&
  ((surv g x).all fun u => sub.nodeIds.all fun j =>
    (labelsBetween out (renIds g x u) (j + n1)).isPerm (crossLabels g x anchors u j) &&
    (labelsBetween out (j + n1) (renIds g x u)).isPerm (crossLabels g x anchors u j))

end C13
