import FGVerif.Model.C01Spec
/-!
  C02 — RDKit's reading of the shared sub-language, written down as `smilesDenote` (OpenSMILES:
  atoms in textual order from 0; a ring digit opens a ring if it is not open and closes it if it
  is; the bond symbol of a ring closure may stand at either digit; an implied bond is aromatic iff
  both atoms are aromatic, else single; `.` separates components), over the sub-grammar `Plain`
  (organic-subset atoms, `- = # :`, branches, single ring digits, dots between atoms).
  RDKit itself is not modelled: that `mol_smiles_to_graph` computes `smilesDenote` (up to `c ↦ C`)
  on in-contract strings is an assumption, exercised by harness/c02.py.  No Mathlib.
-/
namespace C02
open C01

/-- the organic subset (aromatic forms in lower case) -/
def organic : List Str :=
  [['B'], ['C'], ['N'], ['O'], ['P'], ['S'], ['F'], ['C', 'l'], ['B', 'r'], ['I'],
   ['b'], ['c'], ['n'], ['o'], ['p'], ['s']]

/-- SMILES bond symbols and their orders (doubled); `.` = no bond -/
def smilesOrder : Char → Option Int
  | '-' => some 2
  | '=' => some 4
  | '#' => some 6
  | ':' => some 3
  | '.' => some 0
  | _ => none

def plainBond : Option Bond → Bool
  | none => true
  | some (.sym c) => c == '-' || c == '=' || c == '#' || c == ':'
  | some (.rc _ _) => false

/-- a chain link may also be the component separator -/
def plainLink : Option Bond → Bool
  | some (.sym '.') => true
  | b => plainBond b

def plainAtom : AtomTok → Bool
  | .elem s => organic.contains s
  | _ => false

def singleDigit (id : Str) : Bool :=
  match id with
  | [d] => d.isDigit
  | _ => false

mutual
  def PlainC : Chain → Bool
    | .mk a its => plainAtom a && PlainI its
  def PlainI : Items → Bool
    | .nil => true
    | .ring b id r => plainBond b && singleDigit id && PlainI r
    | .branch b c r => plainBond b && PlainC c && PlainI r
    | .next b c => plainLink b && PlainC c
end

/-- the sub-grammar of plain SMILES -/
def Plain (c : Chain) : Bool := PlainC c

abbrev STable := List (Str × Nat × Bool × Option Bond)

/-- ring closures the OpenSMILES way: open/close table; the bond written at either digit counts -/
def smilesEvs (T : STable) : List Ev → List REv
  | [] => []
  | .node i a :: r => .node i a :: smilesEvs T r
  | .link u v low b :: r => .edge u v low b :: smilesEvs T r
  | .mark u lowU b id :: r =>
    match T.lookup id with
    | some (p, lowP, bOpen) =>
      .edge u p (lowU && lowP) (match b with | some x => some x | none => bOpen) ::
        smilesEvs (T.filter fun e => e.1 != id) r
    | none => smilesEvs (T ++ [(id, u, lowU, b)]) r

/-- the order of a SMILES bond; no symbol: aromatic iff both atoms aromatic, else single -/
def smilesLabel (low : Bool) : Option Bond → Option Label
  | none => some (.s (if low then 3 else 2))
  | some (.sym c) =>
    match smilesOrder c with
    | some o => if o = 0 then none else some (.s o)
    | none => none
  | some (.rc _ _) => none

def smilesApply (g : Graph) : REv → Graph
  | .node i a =>
    g.addNode (i : Int) { symbol := some (String.ofList a.sym), labels := some [], isLabeled := some false, aam := none }
  | .edge u v low b =>
    match smilesLabel low b with
    | some l => g.addEdge (u : Int) (v : Int) l
    | none => g

/-- the molecule graph a plain SMILES denotes (node symbols as written: lower case = aromatic) -/
def smilesDenote (c : Chain) : Graph :=
  (smilesEvs [] (c.events 0 none)).foldl smilesApply { multi := false }

end C02
