import FGVerif.Model.C09
/-
  C10 — model of `fgutils.its.split_its` (its.py:129-153) and of the round trips
  `get_its ∘ split_its`, `split_its ∘ get_its`.

  An ITS graph enters as its node list (attributes are opaque to `split_its`: `graph.copy()`
  keeps them) and its edge list in `graph.edges(data=True)` order, a label being a scalar
  (doubled bond order) or a pair.  No Mathlib.
-/
namespace C10
open C09

/-- edge label of an ITS graph: scalar order or `(g, h)` (tuple or list), both doubled -/
inductive Lab where
  | s (o : Int)
  | p (g h : Int)
deriving DecidableEq, Repr, Inhabited

/-- `g.remove_edge(u, v)` -/
def removeEdge {σ} (g : Gr σ Lab) (u v : Int) : Gr σ Lab :=
  { g with edges := g.edges.filter fun e => !samePair e.1 e.2.1 u v }

/-- `g[u][v][BOND_KEY] = b` -/
def setLabel {σ} (g : Gr σ Lab) (u v : Int) (l : Lab) : Gr σ Lab :=
  { g with edges := g.edges.map fun e => if samePair e.1 e.2.1 u v then (e.1, e.2.1, l) else e }

/-- `_set_rc_edge(g, u, v, b)` -/
def setRcEdge {σ} (g : Gr σ Lab) (u v : Int) (b : Int) : Gr σ Lab :=
  if b == 0 then removeEdge g u v else setLabel g u v (.s b)

/-- body of `for u, v, d in graph.edges(data=True)` -/
def splitStep {σ} (gh : Gr σ Lab × Gr σ Lab) (e : Int × Int × Lab) : Gr σ Lab × Gr σ Lab :=
  match e.2.2 with
  | .p a b => (setRcEdge gh.1 e.1 e.2.1 a, setRcEdge gh.2 e.1 e.2.1 b)
  | .s _ => gh       -- neither tuple nor list: left alone

/-- `split_its(graph)`: `g = graph.copy(); h = graph.copy()`, then the loop -/
def splitIts {σ} (I : Gr σ Lab) : Gr σ Lab × Gr σ Lab := I.edges.foldl splitStep (I, I)

/-! ### specification of the split, executable -/

/-- what side `k` (false = reactant, true = product) sees of a label; `none` = no bond -/
def comp (k : Bool) : Lab → Option Int
  | .s o => some o
  | .p g h => let c := if k then h else g; if c = 0 then none else some c

/-- side `k` of an ITS: the same nodes; the bonds whose `k`-th component is not 0, with that
    component as scalar label -/
def side {σ} (k : Bool) (I : Gr σ Lab) : Gr σ Lab :=
  { nodes := I.nodes
    edges := I.edges.filterMap fun e => (comp k e.2.2).map fun o => (e.1, e.2.1, Lab.s o) }

def sameGr {σ} [DecidableEq σ] (A B : Gr σ Lab) : Bool :=
  sameSet A.nodes B.nodes && sameEdges A.edges B.edges

def splitCheck {σ} [DecidableEq σ] (I g h : Gr σ Lab) : Bool :=
  sameGr g (side false I) && sameGr h (side true I)

/-- at most one edge per unordered pair of nodes (what a networkx `Graph` guarantees) -/
def simpleOk {σ β} (I : Gr σ β) : Bool :=
  pairwiseB (fun e f => !samePair e.1 e.2.1 f.1 f.2.1) I.edges

/-! ### composition with `get_its` -/

/-- a graph all of whose labels are scalars, as a molecular graph (`none`: a pair label is left) -/
def scalarEdge (e : Int × Int × Lab) : Option (Int × Int × Int) :=
  match e.2.2 with
  | Lab.s o => some (e.1, e.2.1, o)
  | Lab.p _ _ => none

def toMol (g : Gr String Lab) : Option Mol :=
  (g.edges.mapM scalarEdge).map fun es => { nodes := g.nodes, edges := es }

/-- `get_its(*split_its(I))` -/
def resuper (I : Gr String Lab) : Option Its := do
  let gh := splitIts I
  let g ← toMol gh.1
  let h ← toMol gh.2
  pure (getIts g h)

/-- a scalar label `o` stands for "unchanged": `(o, o)` -/
def pairOf : Lab → Int × Int
  | .s o => (o, o)
  | .p g h => (g, h)

def aamOfI {σ β} (I : Gr σ β) (u : Int) : Option Int :=
  (I.nodes.find? fun x => x.1 == u).bind fun x => x.2.2

/-- the ITS with every node named by its map number (nodes without one, and their bonds, dropped) -/
def nameByAam (I : Gr String Lab) : Its :=
  { nodes := I.nodes.filterMap fun x => x.2.2.map fun a => (a, some x.2.1, some a)
    edges := I.edges.filterMap fun e =>
      match aamOfI I e.1, aamOfI I e.2.1 with
      | some a, some b => some (a, b, pairOf e.2.2)
      | _, _ => none }

def sameIts (A B : Its) : Bool := sameSet A.nodes B.nodes && sameEdges A.edges B.edges

/-- domain of `its_of_split`: node ids distinct, map numbers `≥ 1` and distinct, simple, end points
    are nodes, no label is "no bond on both sides" -/
def itsOk {σ} (I : Gr σ Lab) : Bool :=
  pairwiseB (fun x y => x.1 != y.1) I.nodes &&
  (I.nodes.filterMap fun x => x.2.2).all (fun a => decide (1 ≤ a)) &&
  pairwiseB (fun a b => a != b) (I.nodes.filterMap fun x => x.2.2) &&
  simpleOk I &&
  I.edges.all (fun e => hasNode I e.1 && hasNode I e.2.1 &&
    (match e.2.2 with | .s o => o != 0 | .p g h => !(g == 0 && h == 0)))

/-! ### `split_its(get_its(G, H))` -/

def liftIts (I : Its) : Gr (Option String) Lab :=
  { nodes := I.nodes, edges := I.edges.map fun e => (e.1, e.2.1, Lab.p e.2.2.1 e.2.2.2) }

def splitOfIts (G H : Mol) : Gr (Option String) Lab × Gr (Option String) Lab :=
  splitIts (liftIts (getIts G H))

/-- a molecular graph with every node named by its map number -/
def namedMol (G : Mol) : Gr (Option String) Lab :=
  { nodes := G.nodes.filterMap fun x => x.2.2.map fun a => (a, some x.2.1, some a)
    edges := G.edges.filterMap fun e =>
      match aamOf G e.1, aamOf G e.2.1 with
      | some a, some b => some (a, b, Lab.s e.2.2)
      | _, _ => none }

/-- every atom mapped, the same map numbers on both sides, with the same symbols -/
def fullyMapped (G H : Mol) : Bool :=
  domOk G && domOk H &&
  G.nodes.all (fun x => x.2.2.isSome) && H.nodes.all (fun x => x.2.2.isSome) &&
  sameSet (mapNums G) (mapNums H) &&
  (mapNums G).all fun a => symOf G a == symOf H a

def splitOfItsCheck (G H : Mol) (g h : Gr (Option String) Lab) : Bool :=
  sameGr g (namedMol G) && sameGr h (namedMol H)

def canonGr {σ} (g : Gr σ Lab) : Gr σ Lab :=
  { nodes := canonNodes g.nodes
    edges := canonEdges (fun l => match l with | .s o => [0, o] | .p a b => [1, a, b]) g.edges }

end C10
