import FGVerif.Model.C03Spec
/-!
  C04 with optional pattern nodes (`can_map_to_nothing ≠ []`).  No Mathlib.

  With optional symbols the returned pairs cannot be a function on *all* pattern nodes: a node whose
  symbol may map to nothing may stay without a partner (documented behaviour).  What the statement of
  C04 still says about such an answer:

  * `IsPartialEmbeddingPairs`: the pairs contain the anchor pair, name existing nodes, respect the
    mapper's symbol rule, form a function to distinct host nodes, and every pattern bond *between two
    mapped pattern nodes* lies on a host bond of equal label;
  * `required`: every pattern node without a partner carries a symbol that may map to nothing
    ("the whole pattern, minus optional nodes, is mapped").

  `partialOk` / `requiredOk` are the executable forms (`isPartialEmbedding_iff` in `Proofs/C04Opt.lean`).
-/
namespace C04Opt
open Perm Sub C03

/-- the symbol may map to nothing, asked as the matcher would ask it for a pattern neighbour that finds
    no host neighbour at all: `mapper.permute([ps], []) == [[(0, -1)]]` -/
def optional (m : Mapper) (ps : String) : Bool := m.permute [ps] [] == [[-1]]

structure IsPartialEmbeddingPairs (m : Mapper) (P H : Graph) (pa a : Int) (M : List (Int × Int)) : Prop where
  anchor : (a, pa) ∈ M
  nodes : ∀ x ∈ M, x.1 ∈ H.nodeIds ∧ x.2 ∈ P.nodeIds
  admitted : ∀ x ∈ M, admits m (sym P x.2) (sym H x.1) = true
  functional : ∀ x ∈ M, ∀ y ∈ M, x.2 = y.2 → x.1 = y.1
  injective : ∀ x ∈ M, ∀ y ∈ M, x.1 = y.1 → x.2 = y.2
  bond : ∀ x ∈ M, ∀ y ∈ M, y.2 ∈ P.neighbors x.2 →
    y.1 ∈ H.neighbors x.1 ∧ H.bond? x.1 y.1 = P.bond? x.2 y.2

/-- every pattern node without a partner is optional -/
def Required (m : Mapper) (P : Graph) (M : List (Int × Int)) : Prop :=
  ∀ q ∈ P.nodeIds, (∀ x ∈ M, x.2 ≠ q) → optional m (sym P q) = true

def partialOk (m : Mapper) (P H : Graph) (pa a : Int) (M : List (Int × Int)) : Bool :=
  M.contains (a, pa) &&
  M.all (fun x => H.nodeIds.contains x.1 && P.nodeIds.contains x.2) &&
  M.all (fun x => admits m (sym P x.2) (sym H x.1)) &&
  M.all (fun x => M.all fun y => (!(x.2 == y.2) || x.1 == y.1) && (!(x.1 == y.1) || x.2 == y.2)) &&
  M.all (fun x => M.all fun y => !(P.neighbors x.2).contains y.2 ||
    ((H.neighbors x.1).contains y.1 && H.bond? x.1 y.1 == P.bond? x.2 y.2))

def requiredOk (m : Mapper) (P : Graph) (M : List (Int × Int)) : Bool :=
  P.nodeIds.all fun q => M.any (fun x => x.2 == q) || optional m (sym P q)

end C04Opt
