import FGVerif.Model.C07
/-!
  C06 — functional-group queries are deterministic and pure: the logic part.

  The runtime part of the property (string-hash randomisation, iteration of a set of objects by
  address, aliasing of the caller's graph) cannot be modelled; it is *exercised* by
  `harness/c06.py` in fresh interpreter subprocesses.  What is modelled:

  * `FGConfigProvider.get_tree` builds the tree on first use and caches it (`FGQueryObj.cache`);
  * the query algorithm itself (C05) is a *parameter* `q : View α → Mol → Result`; it sees the
    tree only through what `FGQuery` reads: the items, the `roots` list and every `children`
    list — with their ORDER, because the last matching sibling wins;
  * everything the interpreter is free to choose is the explicit parameter `C07.Env`
    (iteration order of the `parents` set) and, for the unrepaired key, the string hash.
  No Mathlib.
-/
namespace C06
open C07

/-- what `FGQuery.__find_best_node_rec` can see of a tree: configs in node order, the list of
    roots, and the list of children of every node — orders included; not the `parents` lists -/
structure View (α : Type) where
  items : List α
  roots : List Nat
  children : List (List Nat)
deriving DecidableEq, Repr

def view {α} (t : Tree α) : View α :=
  { items := t.items, roots := t.st.roots, children := t.st.nodes.map (·.children) }

/-- `FGConfigProvider`: the config list and the cached tree (`__tree_roots`) -/
structure FGQueryObj (α : Type) where
  cfgs : List α
  cache : Option (Tree α)

def new {α} (cfgs : List α) : FGQueryObj α := { cfgs := cfgs, cache := none }

/-- `get_tree()`: build on first use, afterwards the cached value -/
def getTree {α} (c : Cfg α) (env : Env) (o : FGQueryObj α) : FGQueryObj α × Tree α :=
  match o.cache with
  | some t => (o, t)
  | none =>
      let t := buildTree c env o.cfgs
      ({ o with cache := some t }, t)

/-- result of one `FGQuery.get(mol)`: the object afterwards, the answer, and the caller's graph
    afterwards (the code works on `copy.deepcopy(graph)`, so the caller's value is handed back
    untouched) -/
structure GetOut (α Mol Result : Type) where
  obj : FGQueryObj α
  result : Result
  callerGraph : Mol

def get {α Mol Result} (c : Cfg α) (env : Env) (q : View α → Mol → Result)
    (o : FGQueryObj α) (m : Mol) : GetOut α Mol Result :=
  let (o', t) := getTree c env o
  { obj := o', result := q (view t) m, callerGraph := m }

/-- the object after a history of earlier queries -/
def run {α Mol Result} (c : Cfg α) (env : Env) (q : View α → Mol → Result)
    (o : FGQueryObj α) : List Mol → FGQueryObj α
  | [] => o
  | m :: ms => run c env q (get c env q o m).obj ms

/-! ### the unrepaired sort key: `(pattern_len, len(pattern), hash(pattern_str))` -/

/-- item of the witness: pattern_len, node count and an identifier standing for the pattern string -/
structure WItem where
  id : Nat
  patternLen : Nat
  size : Nat
deriving DecidableEq, Repr

def unrepairedKey (hash : Nat → Nat) (x : WItem) : List Nat := [x.patternLen, x.size, hash x.id]

/-- `__find_best_node_rec` reduced to its sibling rule: among the nodes of `level` that match,
    the LAST one wins, and a matching child overrides its parent -/
def findBest (v : View Nat) (isFg : Nat → Bool) : Nat → List Nat → Option Nat
  | 0, _ => none
  | fuel + 1, level =>
      level.foldl (fun best i =>
        if isFg i then
          match findBest v isFg fuel (v.children.getD i []) with
          | some r => some r
          | none => some i
        else best) none

end C06
