import FGVerif.Model.Permutation
/-!
  C08 — executable specification of `PermutationMapper.permute` and `MappingMatrix.is_mapping`
  (the models themselves are in `Model/Permutation.lean`).  No Mathlib.

  The specification does not enumerate permutations and does not de-duplicate.  It says, for one
  candidate assignment `a : List Int` (entry `i` = structure position given to pattern position
  `i`, or `-1` = "nothing"), whether it is admissible:

  * `|a| = |pat| ≥ 1`;
  * every entry is `-1` or a structure position `< |str|`;
  * the non-negative entries are pairwise distinct;
  * at a non-negative entry the pattern symbol is the wildcard or equals the structure symbol
    (after case folding when `ignore_case` is set);
  * the `-1` entries can be given pairwise different *dummy slots* whose symbol the pattern symbol
    matches.  The dummy slots are the symbols the constructor/padding loop appends: for every
    `c` of `can_map_to_nothing` (in the constructor's order: symbols contained in the wildcard
    last) `max 0 (#pat c − #cur c)` copies of `c`, resp. `max 0 (|pat| − |cur|)` copies when `c` is
    the wildcard, `cur` being the structure plus the dummies added so far.
-/
namespace C08
open Perm

/-- case folding as configured -/
def fold (m : Mapper) (s : String) : String := if m.ignoreCase then s.toLower else s

/-- pattern symbol `p` accepts structure symbol `s`: `p` is the wildcard or they are equal.
    (Asymmetric on purpose: a wildcard on the structure side matches nothing but itself.) -/
def symMatch (w : Option String) (p s : String) : Bool := some p == w || p == s

/-- number of dummies appended for `c` when the structure (with earlier dummies) is `cur` -/
def padCount (w : Option String) (pat cur : List String) (c : String) : Nat :=
  (if some c == w then (pat.length : Int) - cur.length
   else ((pat.filter (· == c)).length : Int) - (cur.filter (· == c)).length).toNat

/-- the dummy symbols appended for the remaining `can_map_to_nothing` symbols -/
def dummiesFrom (w : Option String) (pat : List String) : List String → List String → List String
  | [], _ => []
  | c :: cs, cur =>
      List.replicate (padCount w pat cur c) c ++
        dummiesFrom w pat cs (cur ++ List.replicate (padCount w pat cur c) c)

/-- folded wildcard / pattern / structure / `can_map_to_nothing` as `permute` sees them -/
def wild (m : Mapper) : Option String := m.wildcard.map (fold m)
def fpat (m : Mapper) (pat : List String) : List String := pat.map (fold m)
def fstr (m : Mapper) (str : List String) : List String := str.map (fold m)

/-- the dummy slots of a call `permute pat str` -/
def dummies (m : Mapper) (pat str : List String) : List String :=
  dummiesFrom (wild m) (fpat m pat) (m.cmtnSorted.map (fold m)) (fstr m str)

/-- can the `-1` positions of the zipped list `(pattern symbol, entry)` be given pairwise
    different dummy slots (indices into `D`), none of them in `used`?  Plain backtracking. -/
def assign (w : Option String) (D : List String) : List (String × Int) → List Nat → Bool
  | [], _ => true
  | (p, x) :: rest, used =>
      if x = -1 then
        (List.range D.length).any fun j =>
          !used.contains j &&
          (match D[j]? with
            | some d => symMatch w p d
            | none => false) &&
          assign w D rest (j :: used)
      else assign w D rest used

/-- Boolean `Nodup` -/
def nodupB {α} [BEq α] : List α → Bool
  | [] => true
  | x :: xs => !xs.contains x && nodupB xs

/-- **the executable specification of one assignment** -/
def admissible (m : Mapper) (pat str : List String) (a : List Int) : Bool :=
  let w := wild m
  let P := fpat m pat
  let S := fstr m str
  !P.isEmpty && a.length == P.length &&
  a.all (fun x => decide (-1 ≤ x) && decide (x < (S.length : Int))) &&
  nodupB (a.filter fun x => decide (0 ≤ x)) &&
  (P.zip a).all (fun px =>
    decide (px.2 < 0) ||
      (match S[px.2.toNat]? with
        | some s => symMatch w px.1 s
        | none => false)) &&
  assign w (dummies m pat str) (P.zip a) []

/-- all lists that take their `i`-th entry from the `i`-th list of options -/
def product {α} : List (List α) → List (List α)
  | [] => [[]]
  | o :: os => o.flatMap fun x => (product os).map (x :: ·)

/-- the entries an admissible assignment can have at a position with pattern symbol `p` -/
def slotCands (w : Option String) (S D : List String) (p : String) : List Int :=
  (if D.isEmpty then [] else [(-1 : Int)]) ++
    ((List.range S.length).filter fun j =>
      match S[j]? with
      | some s => symMatch w p s
      | none => false).map fun (j : Nat) => (j : Int)

/-- a finite list that contains every admissible assignment -/
def candidates (m : Mapper) (pat str : List String) : List (List Int) :=
  product ((fpat m pat).map (slotCands (wild m) (fstr m str) (dummies m pat str)))

/-- **the executable specification of a whole result list**: every returned assignment is
    admissible, none is returned twice, every admissible assignment is returned -/
def specCheck (m : Mapper) (pat str : List String) (out : List (List Int)) : Bool :=
  out.all (admissible m pat str) && nodupB out &&
  (candidates m pat str).all fun c => !admissible m pat str c || out.contains c

/-- result list plus the caller's two lists as they are after the call -/
def specCheckCall (m : Mapper) (pat str : List String)
    (out : List (List Int)) (patAfter strAfter : List String) : Bool :=
  specCheck m pat str out && patAfter == pat && strAfter == str

/-- **specification of `MappingMatrix.is_mapping`**: the pattern symbol is the wildcard, or equals
    the structure symbol, or may map to nothing (all after folding) -/
def isMappingSpec (m : Mapper) (ps ss : String) : Bool :=
  some (fold m ps) == wild m || fold m ps == fold m ss ||
    (m.canMapToNothing.map (fold m)).contains (fold m ps)

end C08
