/-
  Wire format shared by the Python harness and the Lean driver: S-expressions.

  atom  := any run of characters other than whitespace and parentheses
  sexp  := atom | '(' sexp* ')'

  Conventions (encoders live in harness/common.py):
    integers   bare decimal, optional leading '-'
    None       `_`
    strings    `s:<text>` when text is over [A-Za-z0-9_#+.*-], else `h:<hex of utf-8>`
    bond order doubled integer (1.5 ↦ 3)
  No Mathlib import here (the driver is compiled as a `lean_exe`).
-/

inductive SExp where
  | atom : String → SExp
  | list : List SExp → SExp
deriving Repr, Inhabited

namespace SExp

mutual
  def beq : SExp → SExp → Bool
    | .atom a, .atom b => a == b
    | .list xs, .list ys => beqList xs ys
    | _, _ => false
  def beqList : List SExp → List SExp → Bool
    | [], [] => true
    | x :: xs, y :: ys => beq x y && beqList xs ys
    | _, _ => false
end

instance : BEq SExp := ⟨beq⟩

mutual
  def render : SExp → String
    | .atom a => a
    | .list xs => "(" ++ renderList xs ++ ")"
  def renderList : List SExp → String
    | [] => ""
    | [x] => render x
    | x :: xs => render x ++ " " ++ renderList xs
end

instance : ToString SExp := ⟨render⟩

/-- tokens: "(" , ")" or an atom -/
def tokenize (s : String) : List String :=
  let step := fun (acc : List String × String) (c : Char) =>
    let (toks, cur) := acc
    if c == '(' || c == ')' then
      let toks := if cur.isEmpty then toks else cur :: toks
      (String.singleton c :: toks, "")
    else if c == ' ' || c == '\t' || c == '\n' || c == '\r' then
      (if cur.isEmpty then toks else cur :: toks, "")
    else (toks, cur.push c)
  let (toks, cur) := s.toList.foldl step ([], "")
  (if cur.isEmpty then toks else cur :: toks).reverse

/-- total stack parser: returns the list of top-level expressions -/
def parseAll (s : String) : Option (List SExp) :=
  let step := fun (st : Option (List (List SExp))) (tok : String) =>
    match st with
    | none => none
    | some stack =>
      if tok == "(" then some ([] :: stack)
      else if tok == ")" then
        match stack with
        | top :: next :: rest => some ((SExp.list top.reverse :: next) :: rest)
        | _ => none
      else
        match stack with
        | top :: rest => some ((SExp.atom tok :: top) :: rest)
        | [] => none
  match (tokenize s).foldl step (some [[]]) with
  | some [top] => some top.reverse
  | _ => none

def parse (s : String) : Option SExp :=
  match parseAll s with
  | some [x] => some x
  | _ => none

/-! decoders -/

def asInt : SExp → Option Int
  | .atom a => a.toInt?
  | _ => none

def asNat : SExp → Option Nat
  | .atom a => a.toNat?
  | _ => none

def asBool : SExp → Option Bool
  | .atom "1" => some true
  | .atom "0" => some false
  | _ => none

def hexVal (c : Char) : Option Nat :=
  if '0' ≤ c && c ≤ '9' then some (c.toNat - '0'.toNat)
  else if 'a' ≤ c && c ≤ 'f' then some (c.toNat - 'a'.toNat + 10)
  else none

def unhex : List Char → Option (List Char)
  | [] => some []
  | a :: b :: rest => do
      let x ← hexVal a
      let y ← hexVal b
      let r ← unhex rest
      pure (Char.ofNat (16 * x + y) :: r)
  | _ => none

/-- strings are `s:<text>` or `h:<hex>` (ASCII only on the hex path) -/
def asStr : SExp → Option String
  | .atom a =>
    if a.startsWith "s:" then some (a.drop 2).toString
    else if a.startsWith "h:" then (unhex (a.drop 2).toString.toList).map String.ofList
    else none
  | _ => none

def isNone : SExp → Bool
  | .atom "_" => true
  | _ => false

def asOpt {α} (f : SExp → Option α) (x : SExp) : Option (Option α) :=
  if isNone x then some none else (f x).map some

def asList {α} (f : SExp → Option α) : SExp → Option (List α)
  | .list xs => xs.mapM f
  | _ => none

def asPair {α β : Type} (f : SExp → Option α) (g : SExp → Option β) : SExp → Option (α × β)
  | .list [a, b] => do pure (← f a, ← g b)
  | _ => none

/-! encoders -/

def ofInt (i : Int) : SExp := .atom (toString i)
def ofNat (n : Nat) : SExp := .atom (toString n)
def ofBool (b : Bool) : SExp := .atom (if b then "1" else "0")
def none' : SExp := .atom "_"

def safeChar (c : Char) : Bool :=
  c.isAlphanum || c == '_' || c == '#' || c == '+' || c == '.' || c == '*' || c == '-'

def hexDigit (n : Nat) : Char :=
  if n < 10 then Char.ofNat (n + '0'.toNat) else Char.ofNat (n - 10 + 'a'.toNat)

def ofStr (s : String) : SExp :=
  if s.toList.all safeChar then .atom ("s:" ++ s)
  else .atom ("h:" ++ String.ofList (s.toList.flatMap fun c => [hexDigit (c.toNat / 16), hexDigit (c.toNat % 16)]))

def ofOpt {α} (f : α → SExp) : Option α → SExp
  | some a => f a
  | none => none'

def ofList {α} (f : α → SExp) (xs : List α) : SExp := .list (xs.map f)

end SExp
