import FGVerif.Proofs.GenParsed
#print axioms GenParsed.fastRun_spec
#print axioms GenParsed.fastParse_sound
#print axioms GenParsed.default_tree_parsed
#print axioms GenParsed.stuck_tree_parsed
#print axioms GenParsed.default_patterns_parsed
#print axioms GenParsed.default_antipatterns_parsed
#print axioms GenParsed.da_pos_refs_parsed
#print axioms GenParsed.da_neg_refs_parsed
#print axioms GenParsed.common_refs_parsed
#print axioms GenParsed.proxy_patterns_parsed
