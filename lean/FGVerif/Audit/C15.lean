import FGVerif.Proofs.C15
#print axioms C15.balanced_mapped
#print axioms C15.balanced_mapped_of
#print axioms C15.reaction_nodes_eq
#print axioms C15.superposition
#print axioms C15.superposition_pointwise
#print axioms C15.super_label
#print axioms C15.halves_labels
#print axioms C15.halves_wf
#print axioms C15.getIts_labels
#print axioms C15.da_counts
