import FGVerif.Proofs.C15
import FGVerif.Proofs.C15General
import FGVerif.Proofs.C15Halves
import FGVerif.Proofs.C15Rc
#print axioms C15.balanced_mapped
#print axioms C15.balanced_mapped_of
#print axioms C15.reaction_nodes_eq
#print axioms C15.superposition
#print axioms C15.superposition_pointwise
#print axioms C15.super_label
#print axioms C15.halves_labels
#print axioms C15.halves_wf
#print axioms C15.getIts_labels
#print axioms C15.da_counts
#print axioms C15.superposition_general
#print axioms C15.getIts_small_eq_general
#print axioms C15.superGeneralB_reaction
#print axioms C15.resuperGeneralB_ok
#print axioms C15.halves_dom
#print axioms C15.generalOk_finish
#print axioms C15.G.halves_renamed
#print axioms C15.G.nameByAam_toGr
#print axioms C15.G.itsOK_toGr
#print axioms C15.halfB_sound
#print axioms C15.halvesB_sound
#print axioms C15.halfSpec_pair_G
#print axioms C15.halfSpec_pair_H
#print axioms C15.halvesB_reaction
#print axioms C15.daCycleB_sound
#print axioms C15.rc_step
#print axioms C15.labels_ren
#print axioms C15.dacycle_step
#print axioms C15.good_step
#print axioms C15.front_preserved
#print axioms C15.dacycle_finish
#print axioms C15.rc_shape_general
#print axioms C15.da_pos_listed
#print axioms C15.da_pos_safe
#print axioms C15.da_pos_hyp
#print axioms C15.da_pos_front
#print axioms C15.da_pos_total
#print axioms C15.da_neg_listed
#print axioms C15.da_neg_safe
#print axioms C15.da_neg_hyp
#print axioms C15.da_neg_front
#print axioms C15.da_neg_total
#print axioms C15.da_rc_shape_thm
#print axioms C15.da_rc_shape_all
