import FGVerif.Proofs.C10
#print axioms C10.split_exact
#print axioms C10.splitIts_eq
#print axioms C10.split_scalar
#print axioms C10.splitCheck_iff
#print axioms C10.splitCheck_sound
#print axioms C10.its_of_split
#print axioms C10.its_of_split_named
#print axioms C10.split_halves
#print axioms C10.itsOK_of_itsOk
#print axioms C10.sameIts_iff
#print axioms C10.split_of_its
#print axioms C10.splitOfItsCheck_iff
#print axioms C10.fullyMapped_of_check
#print axioms C10.smiles_roundtrip_modulo_rdkit
#print axioms C09.getIts_simple
#print axioms C09.getIts_ids
