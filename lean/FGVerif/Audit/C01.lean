import FGVerif.Proofs.C01
import FGVerif.Proofs.C01Shift
#print axioms C01.lex_tokens
#print axioms C01.lex_render
#print axioms C01.ring_table_pairs
#print axioms C01.chain_run
#print axioms C01.run_sim
#print axioms C01.parse_faithful_core
#print axioms C01.parse_faithful
#print axioms C01.parse_nodes
#print axioms C01.parse_edges
#print axioms C01.denote_hasEdge
#print axioms C01.denote_bond
#print axioms C01.dot_never_bonds
#print axioms C01.dot_never_bonds_edges
#print axioms C01.all_declared_orders_accepted
#print axioms C01.quadruple_declared
#print axioms C01.offset_shift
#print axioms C01.tbl_atom_bounded
#print axioms C01.tbl_atom_no_digit
#print axioms C01.tbl_bond_no_digit
#print axioms C01.tbl_punct
#print axioms C01.tbl_bond_single
#print axioms C01.tbl_bond_keys
