import FGVerif.Proofs.C03
import FGVerif.Proofs.C03Oracle
#print axioms C03.anchored_complete
#print axioms C03.anchored_complete_component
#print axioms C03.unanchored_complete
#print axioms C03.fit_complete
#print axioms C03.fit_fuel_irrelevant
#print axioms C03.fit_fuelFor_enough
#print axioms C03.permute_complete
#print axioms C03.permute_sound
#print axioms C03.admits_eq_admit1
#print axioms C03.isEmbedding_iff
#print axioms C03.isEmbedding_sound
#print axioms C03.existsEmbedding_sound
#print axioms C03.wfB_sound
#print axioms C03.existsEmbedding_complete
#print axioms C03.existsEmbedding_iff
