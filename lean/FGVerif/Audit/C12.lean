import FGVerif.Proofs.C12
#print axioms C12.spec_holds
#print axioms C12.only_adds_hydrogens
#print axioms C12.fresh_ids
#print axioms C12.count
#print axioms C12.idempotent
#print axioms C12.wf_preserved
#print axioms C12.specCheck_sound
#print axioms C12.valence_table_main_group
#print axioms C12.valence_table_exact
