import FGVerif.Proofs.C12
import FGVerif.Proofs.C12Forest
#print axioms C12.spec_holds
#print axioms C12.only_adds_hydrogens
#print axioms C12.fresh_ids
#print axioms C12.new_ids_above
#print axioms C12.count
#print axioms C12.idempotent
#print axioms C12.wf_preserved
#print axioms C12.specCheck_sound
#print axioms C12.valence_table_main_group
#print axioms C12.valence_table_exact
-- completion preserves the hypotheses of C03/C04/C05 (Proofs/C12Forest.lean)
#print axioms C12.mem_neighbors_extend
#print axioms C12.extension_with
#print axioms C12.wf03_extend_iff
#print axioms C12.forest_extend_iff
#print axioms C12.addImplicitHydrogens_wf03
#print axioms C12.addImplicitHydrogens_forest
#print axioms C12.addImplicitHydrogens_wf03_iff
#print axioms C12.addImplicitHydrogens_forest_iff
#print axioms C12.addImplicitHydrogens_cyclic
#print axioms C12.addImplicitHydrogens_wfB
#print axioms C12.spec_holds_c03
-- the well-formedness notions related (Proofs/GraphWF.lean)
#print axioms GraphWF.c12_iff
#print axioms GraphWF.c12_of_c03
#print axioms GraphWF.c12_of_c11
#print axioms GraphWF.c03_of_c11
#print axioms GraphWF.c11_of_c03
#print axioms GraphWF.c03_iff_c11
#print axioms GraphWF.c03_not_of_c11_loop
#print axioms GraphWF.c11_not_of_c03_multi
#print axioms GraphWF.wfB_iff
#print axioms GraphWF.wellFormed_iff
#print axioms GraphWF.simple_iff
#print axioms GraphWF.noLoopB_iff
#print axioms GraphWF.wfB_iff_checkers
#print axioms GraphWF.c12_decide_of_wfB
#print axioms GraphWF.c12_decide_of_wellFormed
