import FGVerif.Proofs.C13
import FGVerif.Proofs.C13Any
#print axioms C13.replace_exact
#print axioms C13.replace_empty
#print axioms C13.specCheck_sound
#print axioms C13.replace_specCheck
#print axioms C13.replace_labels
#print axioms C13.replace_labels_of_inc
#print axioms C13.compose_incident_order
#print axioms C13.replaceNode_nodes
#print axioms C13.replace_wf
#print axioms C13.replace_contiguous
#print axioms C13.relabel_exact
#print axioms C13.relabel_spec
#print axioms C13.relabelSpecCheck_sound
#print axioms C13.rank_lt
#print axioms C13.replace_exact_any
#print axioms C13.replace_labels_any
#print axioms C13.compose_incident_order_any
#print axioms C13.replace_wf_any
#print axioms C13.replace_ids_perm
#print axioms C13.replace_contiguousAny
#print axioms C13.replace_empty_any
#print axioms C13.specCheck_sound_any
#print axioms C13.replace_specCheck_any
#print axioms C13.inDomainAny_of_inDomain
#print axioms C13.order_witness
