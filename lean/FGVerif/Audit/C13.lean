import FGVerif.Proofs.C13
#print axioms C13.replace_exact
#print axioms C13.replace_empty
#print axioms C13.specCheck_sound
#print axioms C13.replace_specCheck
#print axioms C13.replace_labels
#print axioms C13.replace_labels_of_inc
#print axioms C13.compose_incident_order
#print axioms C13.replaceNode_nodes
#print axioms C13.replace_wf
#print axioms C13.replace_contiguous
#print axioms C13.relabel_exact
#print axioms C13.relabel_spec
#print axioms C13.relabelSpecCheck_sound
#print axioms C13.rank_lt
