import FGVerif.Proofs.C09
#print axioms C09.its_exact
#print axioms C09.getIts_closed
#print axioms C09.specCheck_iff
#print axioms C09.specCheck_sound
#print axioms C09.specCheck_getIts
#print axioms C09.dom_of_domOk
#print axioms C09.itsSpec_node
#print axioms C09.itsSpec_edge
#print axioms C09.itsSpec_renamed
#print axioms C09.renumbering_invariant
#print axioms C09.renamed_renameFlip
#print axioms C09.no_ghost_nodes
#print axioms C09.one_sided_atoms_contribute_nothing
#print axioms C09.Unrepaired.noGuard_violates
#print axioms C09.Unrepaired.skip_violates
#print axioms C09.getIts_simple
#print axioms C09.getIts_ids
