import FGVerif.Proofs.C07
import FGVerif.Proofs.C07Default
import FGVerif.Proofs.C07Key
import FGVerif.Proofs.C07Bridge
import FGVerif.Proofs.C07Strings
import FGVerif.Proofs.C07KeyGraph
import FGVerif.Proofs.C07Embeds
import FGVerif.Proofs.C07Anti
#print axioms C07.hasse
#print axioms C07.permutation_invariant
#print axioms C07.sub_irrefl
#print axioms C07.buildIdx_inv
#print axioms C07.sp_spec
#print axioms C07.specCheck_sound
#print axioms C07.ofSeed_valid
#print axioms C07.keyOrder_ofKey
#print axioms C07.key_strict
#print axioms C07.key_strict_lex
#print axioms C07.key_strict_lex_swapped
#print axioms C07.default_emb_eq
#print axioms C07.default_anti_eq
#print axioms C07.default_keys_eq
#print axioms C07.default_instance
#print axioms C07.default_sub_model
#print axioms C07.default_klt_model
#print axioms C07.default_assertion_free
#print axioms C07.default_true_order
#print axioms C07.default_true_anti
#print axioms C07.default_hasse
#print axioms C07.buildTreeE_eq
#print axioms C07.buildFG_eq
#print axioms C07.key_eq_patternStr
#print axioms C07.key_injective_of_distinct_strings
#print axioms C07.fgKlt_total_of_distinct_strings
#print axioms C07.default_strings_distinct
#print axioms C07.gwf_of_gwfB
#print axioms C07.key_strict_graph
#print axioms C07.key_counts_graph
#print axioms C07.fgKlt_of_proper_embedding
#print axioms C07.embeds_iff
#print axioms C07.key_strict_embeds
#print axioms C07.strict_of_matcher_exact
#print axioms C07.gEmb_iff_c03
#print axioms C07.default_patterns_wf
#print axioms C07.anti_sub_eq
#print axioms C07.anti_emb_eq
#print axioms C07.anti_anti_eq
#print axioms C07.anti_keys_eq
#print axioms C07.anti_true_emb
#print axioms C07.anti_true_anti
#print axioms C07.anti_veto_effective
#print axioms C07.hasseHyps_of_hypsOk
#print axioms C07.anti_hasse
#print axioms C07.anti_domain_nonempty
