import FGVerif.Proofs.C07
import FGVerif.Proofs.C07Default
import FGVerif.Proofs.C07Key
import FGVerif.Proofs.C07Bridge
#print axioms C07.hasse
#print axioms C07.permutation_invariant
#print axioms C07.sub_irrefl
#print axioms C07.buildIdx_inv
#print axioms C07.sp_spec
#print axioms C07.specCheck_sound
#print axioms C07.ofSeed_valid
#print axioms C07.keyOrder_ofKey
#print axioms C07.key_strict
#print axioms C07.key_strict_lex
#print axioms C07.key_strict_lex_swapped
#print axioms C07.default_emb_eq
#print axioms C07.default_anti_eq
#print axioms C07.default_keys_eq
#print axioms C07.default_instance
#print axioms C07.default_sub_model
#print axioms C07.default_klt_model
#print axioms C07.default_assertion_free
#print axioms C07.default_true_order
#print axioms C07.default_true_anti
#print axioms C07.default_hasse
#print axioms C07.buildTreeE_eq
#print axioms C07.buildFG_eq
