import FGVerif.Proofs.C04
import FGVerif.Proofs.C03Oracle
import FGVerif.Proofs.C04Opt
#print axioms C04.local_sound
#print axioms C04.anchored_sound_partial
#print axioms C04.anchored_sound_connected
#print axioms C04.anchored_exact_acyclic
#print axioms C04.anchored_failure_acyclic
#print axioms C04.unanchored_exact_acyclic
#print axioms C04.unsound_witness_host_cycle
#print axioms C04.unsound_witness_pattern_cycle
#print axioms C03.anchored_complete_component
#print axioms C03.isEmbedding_iff
#print axioms C03.embeddingPairs_embedding
#print axioms C03.existsEmbedding_sound
#print axioms C03.wfB_sound
#print axioms C03.isForestB_sound
#print axioms C03.existsEmbedding_complete
#print axioms C03.existsEmbedding_iff
#print axioms C04Opt.partialOk_iff
#print axioms C04Opt.requiredOk_iff
#print axioms C04Opt.partialOk_of_isEmbedding
#print axioms C04Opt.k12_witness
