import FGVerif.Proofs.C06
import FGVerif.Proofs.C06Full
import FGVerif.Proofs.C06Relabel
import FGVerif.Proofs.C06Default
import FGVerif.Proofs.C06Total
#print axioms C06.history_independent
#print axioms C06.env_independent
#print axioms C06.view_env_independent
#print axioms C06.env_independent_ofKey
#print axioms C06.deterministic     -- corollary of history_independent + env_independent; "same arguments, same answer" is typing
#print axioms C06.input_untouched   -- `rfl`: true by construction of the model, NOT evidence about the code (purity is checked at run time)
#print axioms C06.hash_dependent_witness_unrepaired
#print axioms C06.env_independent_strings
#print axioms C06.env_independent_fg
#print axioms C06.env_independent_default
#print axioms C06.buildFull_map
#print axioms C06.buildFull_eq
#print axioms C06.history_end_to_end
#print axioms C06.query_end_to_end
#print axioms C06.query_end_to_end_checked
#print axioms C06.fgQueryGetM_eq_get
#print axioms C06.getFunctionalGroups_relabel
#print axioms C06.default_inputs_c07
#print axioms C06.default_strings_distinct_full
#print axioms C06.default_assertion_free_full
#print axioms C06.default_end_to_end
#print axioms C06.default_query_end_to_end
#print axioms C06.view_env_independentE
#print axioms C06.query_end_to_end_total
