import FGVerif.Proofs.C06
#print axioms C06.history_independent
#print axioms C06.env_independent
#print axioms C06.view_env_independent
#print axioms C06.env_independent_ofKey
#print axioms C06.deterministic
#print axioms C06.input_untouched
#print axioms C06.hash_dependent_witness_unrepaired
