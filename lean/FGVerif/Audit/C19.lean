import FGVerif.Proofs.C19
#print axioms C19.bridge_roundtrip
#print axioms C19.bridge_roundtrip_semantics
#print axioms C19.normalise_semantics
#print axioms C19.fromLists_spec
#print axioms C19.refuses_labels
#print axioms C19.bond_tables_inverse
#print axioms C19.sym_table
#print axioms C19.specCheck_sound
#print axioms C19.wl_invariant
#print axioms C19.wl_invariant_digest
#print axioms C19.wl_invariant_relabel
#print axioms C19.mol_compare_invariant
