import FGVerif.Proofs.C02
#print axioms C02.parse_eq_smiles
#print axioms C02.denote_eq_smilesDenote
#print axioms C02.tbl_smiles_orders
#print axioms C02.opening_bond_differs
#print axioms C01.parse_faithful
#print axioms C01.lex_render
