import FGVerif.Proofs.C20
#print axioms C20.complete_spec
#print axioms C20.specCheck_sound
#print axioms C20.complete_specCheck
#print axioms C20.specCheck_iff
#print axioms C20.specCheckOrdered_sound
#print axioms C20.complete_specCheckOrdered
#print axioms C20.complete_increasing
#print axioms C20.complete_length
#print axioms C20.complete_preserves
#print axioms C20.complete_fresh
#print axioms C20.complete_distinct
#print axioms C20.complete_least
#print axioms C20.start_min_is_least
#print axioms C20.initialize_ok
#print axioms C20.initialize_refuses
#print axioms C20.initialize_keeps_existing
