import FGVerif.Driver.Shared
import FGVerif.Model.C12
import FGVerif.Model.C12Spec
/-! driver operations for C12 -/
namespace C12
open SExp

/-- the implementation's output: a graph, or `(raised <Kind>)` -/
def decodeImpl : List SExp → Option (Option (Option Graph))
  | [] => some none
  | [.list [.atom "raised", _]] => some (some none)
  | [x] => (asGraph x).map fun g => some (some g)
  | _ => none

/-- `(addh <graph> [impl])` → `(ok <completed graph> spec_model spec_impl (failing clauses of impl…) wf=<0|1>)`
    `(idem <graph> [impl])` → the same model; the spec is "output = input" (second completion) -/
def handle : List SExp → Option SExp
  | .atom "addh" :: g :: rest => do
      let g ← asGraph g
      let model := addImplicitHydrogens g
      let impl ← decodeImpl rest
      let (si, why) := match impl with
        | none => (none', [])
        | some none => (ofBool false, ["raised"])
        | some (some o) => (ofBool (specCheck g o), failing g o)
      pure (.list [.atom "ok", ofGraph model, ofBool (specCheck g model), si, ofList (fun s => .atom s) why,
                   .atom (if decide (WF g) then "wf=1" else "wf=0")])
  | .atom "idem" :: g :: rest => do
      let g ← asGraph g
      let model := addImplicitHydrogens g
      let impl ← decodeImpl rest
      let si := match impl with
        | none => none'
        | some none => ofBool false
        | some (some o) => ofBool (graphEq g o)
      pure (.list [.atom "ok", ofGraph model, ofBool (graphEq g model), si])
  | _ => none

end C12
