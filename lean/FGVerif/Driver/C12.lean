import FGVerif.Driver.Shared
/-! driver operations for C12 (stub: replaced by the property's own driver) -/
namespace C12
def handle : List SExp → Option SExp := fun _ => none
end C12
