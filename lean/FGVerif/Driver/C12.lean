import FGVerif.Driver.Shared
import FGVerif.Model.C12
/-! driver operations for C12 (base version) -/
namespace C12
open SExp

/-- `(addh <graph> [impl])` → the completed graph in wire form -/
def handle : List SExp → Option SExp
  | .atom "addh" :: g :: _rest => do
      let g ← asGraph g
      pure (.list [.atom "ok", ofGraph (addImplicitHydrogens g), ofBool true, none'])
  | _ => none

end C12
