import FGVerif.Driver.Shared
/-! driver operations for C17 (stub: replaced by the property's own driver) -/
namespace C17
def handle : List SExp → Option SExp := fun _ => none
end C17
