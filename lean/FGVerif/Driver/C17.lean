import FGVerif.Wire
import FGVerif.Model.C17
/-! driver operations for C17 -/
namespace C17
open SExp

def encLists (o : List (List Nat)) : SExp := ofList (ofList ofNat) o

def encResult : Result → SExp
  | .ok o => encLists o
  | .assertion _ => .list [.atom "raised", .atom "Assertion"]
  | .fuel _ => .list [.atom "raised", .atom "Fuel"]

/-- `(cis <orig: ((id (nbr …)) …)> <anchor id> <adj: ((nbr …) …)> [<impl: ((id …) …) | (raised K)>])`

    `orig`  = the graph as given to the function, ids coded as naturals by the harness
              (node order, neighbour order of the original graph);
    `adj`   = `list(G2.neighbors(i))` for `i = 0 … n-1` of the relabelled graph `G2`.
    reply: `(ok <model output> <spec_model> <spec_impl> <failing clause of impl> <relabel consistent>
             <well-formed> <number of connected sets> <events had assert failure> )`.
    The specification is evaluated on the ORIGINAL graph in the original ids (it does not know
    about `nmap`). -/
def handle : List SExp → Option SExp
  | .atom "cis" :: orig :: anchor :: adj :: rest => do
      let orig ← asList (asPair asNat (asList asNat)) orig
      let anchor ← asNat anchor
      let adj ← asList (asList asNat) adj
      let verts := orig.map (·.1)
      let nb := nbOrig orig
      let model := nodeInducedCIS verts anchor adj
      let specModel := match model with
        | .ok o => specCheck verts nb anchor o
        | _ => false
      let (specImpl, clause) ← match rest with
        | [.list [.atom "raised", .atom _]] => pure (ofBool false, ofNat 9)
        | [impl] => do
            let out ← asList (asList asNat) impl
            pure (ofBool (specCheck verts nb anchor out), ofNat (specClause verts nb anchor out))
        | _ => pure (none', none')
      pure (.list [.atom "ok", encResult model, ofBool specModel, specImpl, clause,
        ofBool (relabelConsistent orig anchor adj), ofBool (wellFormed adj),
        ofNat (allConnectedSubsets verts nb anchor).length])
  | [.atom "spec", orig, anchor] => do
      -- the executable specification alone: canonical connected sets containing the anchor
      let orig ← asList (asPair asNat (asList asNat)) orig
      let anchor ← asNat anchor
      let sets := (allConnectedSubsets (orig.map (·.1)) (nbOrig orig) anchor).map canonSet
      pure (.list [.atom "ok", encLists sets, ofBool true, none'])
  | _ => none

end C17
