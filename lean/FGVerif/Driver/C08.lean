import FGVerif.Driver.Shared
/-! driver operations for C08 (base version) -/
namespace C08
open SExp Perm

/-- `(permute <mapper> (pat …) (str …) [<impl: ((a …) …)>])` -/
def handle : List SExp → Option SExp
  | .atom "permute" :: m :: pat :: str :: _rest => do
      let m ← asMapper m
      let pat ← asList asStr pat
      let str ← asList asStr str
      let model := m.permute pat str
      pure (.list [.atom "ok", ofList (ofList ofInt) model, ofBool true, none'])
  | _ => none

end C08
