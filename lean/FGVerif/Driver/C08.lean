import FGVerif.Driver.Shared
import FGVerif.Model.C08
/-! driver operations for C08 -/
namespace C08
open SExp Perm

def isRaised : SExp → Bool
  | .list (.atom "raised" :: _) => true
  | _ => false

/-- `(permute <mapper> (pat …) (str …) [<impl: (((a …) …) (pat after …) (str after …))>])`
      model output `(((a …) …) (pat …) (str …))`: the result list *in order* and the caller's two
      lists after the call (unchanged by construction in the model);
      `spec_impl` = `specCheckCall` on the implementation's triple; extra: number of dummy slots.
    `(ismapping <mapper> <ps> <ss> [<impl bool>])`
      model output `Mapper.isMapping`, `spec_*` = agreement with `isMappingSpec`. -/
def handle : List SExp → Option SExp
  | .atom "permute" :: m :: pat :: str :: rest => do
      let m ← asMapper m
      let pat ← asList asStr pat
      let str ← asList asStr str
      let model := m.permute pat str
      let enc := fun (o : List (List Int)) (p s : List String) =>
        SExp.list [ofList (ofList ofInt) o, ofList ofStr p, ofList ofStr s]
      let specModel := specCheckCall m pat str model pat str
      let specImpl ← match rest with
        | [] => pure none'
        | [impl] =>
            if isRaised impl then pure (ofBool false)
            else match impl with
              | .list [o, p, s] => do
                  let o ← asList (asList asInt) o
                  let p ← asList asStr p
                  let s ← asList asStr s
                  pure (ofBool (specCheckCall m pat str o p s))
              | _ => none
        | _ => none
      pure (.list [.atom "ok", enc model pat str, ofBool specModel, specImpl,
        ofNat (dummies m pat str).length])
  | .atom "ismapping" :: m :: ps :: ss :: rest => do
      let m ← asMapper m
      let ps ← asStr ps
      let ss ← asStr ss
      let model := m.isMapping ps ss
      let spec := isMappingSpec m ps ss
      let specImpl ← match rest with
        | [] => pure none'
        | [impl] =>
            if isRaised impl then pure (ofBool false)
            else do
              let b ← asBool impl
              pure (ofBool (b == spec))
        | _ => none
      pure (.list [.atom "ok", ofBool model, ofBool (model == spec), specImpl])
  | _ => none

end C08
