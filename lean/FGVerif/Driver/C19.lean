import FGVerif.Driver.Shared
import FGVerif.Model.C19
import FGVerif.Model.C11
/-! driver operations for C19 -/
namespace C19
open SExp

def ofErr : Err → SExp
  | .valueError => .list [.atom "raised", .atom "ValueError"]
  | .keyError => .list [.atom "raised", .atom "KeyError"]

/-- the property speaks of atom order, bonded pairs and orders - not of the order in which a
    node's neighbours are listed: adjacency rows are sorted by neighbour id before comparing -/
def sortRow (row : List (Int × List (Nat × Label))) : List (Int × List (Nat × Label)) :=
  let rec ins (x : Int × List (Nat × Label)) : List (Int × List (Nat × Label)) → List (Int × List (Nat × Label))
    | [] => [x]
    | y :: ys => if x.1 ≤ y.1 then x :: y :: ys else y :: ins x ys
  row.foldr ins []

def canonAdj (g : Graph) : Graph := { g with adj := g.adj.map fun r => (r.1, sortRow r.2) }

def ofOut : Except Err Graph → SExp
  | .ok g => ofGraph (canonAdj g)
  | .error e => ofErr e

/-- implementation output: a graph or `(raised <Kind>)`; kinds other than ValueError are all
    mapped to `keyError` ("some other exception") for the purpose of the spec -/
def asOut : SExp → Option (Except Err Graph)
  | .list [.atom "raised", .atom k] => some (.error (if k == "ValueError" then .valueError else .keyError))
  | x => (asGraph x).map .ok

/-- a digest that is injective on the strings the hash feeds it (brackets do not occur in
    symbols, orders or counts): the partition it induces is the finest any digest can induce -/
def bracket (s : String) : String := "<" ++ s ++ ">"

/-- `(bridge <ignore_aam 0|1> <graph> [impl])` → `(ok <graph | (raised K)> spec_model spec_impl closed=0|1 wf=0|1)`
    (`wf` = the hypotheses `C11.wellFormed g`, `C11.simple g` of `C19.bridge_spec_holds` / `bridge_lossless`;
     `noloops` = the hypothesis `noSelfLoops g` of `bridge_lossless`)
    `(wl <iterations> <graph>)` → `(ok <hash under the bracket digest, hex> 1 _)` -/
def handle : List SExp → Option SExp
  | .atom "bridge" :: ia :: g :: rest => do
      let ia ← asBool ia
      let g ← asGraph g
      let model := bridge ia g
      let si ← match rest with
        | [impl] => do
            let o ← asOut impl
            pure (ofBool (specCheck ia g o))
        | _ => pure none'
      pure (.list [.atom "ok", ofOut model, ofBool (specCheck ia g model), si,
                   .atom (if edgesClosed g then "closed=1" else "closed=0"),
                   .atom (if C11.wellFormed g && C11.simple g then "wf=1" else "wf=0"),
                   .atom (if noSelfLoops g then "noloops=1" else "noloops=0")])
  | .atom "wl" :: k :: g :: _ => do
      let k ← asNat k
      let g ← asGraph g
      pure (.list [.atom "ok", ofStr (wlHash (wlString bracket) k g), ofBool true, none'])
  | _ => none

end C19
