import FGVerif.Driver.Shared
/-! driver operations for C19 (stub: replaced by the property's own driver) -/
namespace C19
def handle : List SExp → Option SExp := fun _ => none
end C19
