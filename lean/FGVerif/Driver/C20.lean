import FGVerif.Wire
import FGVerif.Model.C20
/-! driver operations for C20 -/
namespace C20
open SExp

def decodeOffset : SExp → Option Offset
  | .atom "_" => some .none
  | .atom "min" => some .min
  | x => (asInt x).map .int

/-- `(complete <offset> (<aam|_> …) [<impl out: (int|_ …) | (raised K)>])` /
    `(initialize <offset> ((id aam|_) …) [<impl: ((aam|_ …) raised)>])` -/
def handle : List SExp → Option SExp
  | .atom "complete" :: o :: nodes :: rest => do
      let o ← decodeOffset o
      let nodes ← asList (asOpt asInt) nodes
      let model := completeAam o nodes
      let specModel := specCheck o nodes model
      -- an implementation exception (`(raised <Kind>)`: complete_aam must not refuse any input of the domain) and
      -- an output in which a node is left WITHOUT a number (`_`: "every node carries a map number afterwards")
      -- are failures of the specification, not decode errors
      let specImpl ← match rest with
        | [.list [.atom "raised", .atom _]] => pure (ofBool false)
        | [impl] => do
            let out ← asList (asOpt asInt) impl
            pure (ofBool (match out.mapM id with
              | some ints => specCheck o nodes ints
              | none => false))
        | _ => pure none'
      pure (.list [.atom "ok", ofList ofInt model, ofBool specModel, specImpl])
  | .atom "initialize" :: off :: nodes :: rest => do
      let off ← asInt off
      let nodes ← asList (asPair asInt (asOpt asInt)) nodes
      let (out, raised) := initializeAam off nodes
      let enc := fun (r : List (Option Int) × Bool) =>
        SExp.list [ofList (ofOpt ofInt) r.1, ofBool r.2]
      -- the statement for initialise is functional: the model *is* the spec
      let specImpl ← match rest with
        | [.list [.atom "raised", .atom _]] => pure (ofBool false)   -- any exception other than the documented refusal
        | [impl] => do
            let r ← asPair (asList (asOpt asInt)) asBool impl
            pure (ofBool (r.1 == out && r.2 == raised))
        | _ => pure none'
      pure (.list [.atom "ok", enc (out, raised), ofBool true, specImpl])
  | _ => none

end C20
