import FGVerif.Driver.Shared
import FGVerif.Model.C07
/-!
  driver operations for C07

  `(C07 tree <mapper> (<cfg> …) <env seed> [<impl>])`
     cfg  := (name patternStr <graph> (<anti-pattern graph> …))
     impl := ((<parent idx> <child idx>) …) (<root idx> …))   -- positions in the given list, sorted
           | (raised <Kind>)
  reply `(ok <model> <spec_model> <spec_impl> <hasse> <matcherAgrees> <hypsOk> <noMutual> <pureEqE>)`
     model   the hierarchy computed by the model with the matcher model's `is_subgroup`
             (same form as impl; `(raised Assertion)` when the both-directions assertion fires)
     hasse   the Hasse diagram of the true embedding order (links, roots)
-/
namespace C07
open SExp

def asCfg : SExp → Option FGConfig
  | .list [n, ps, g, aps] => do
      pure { name := ← asStr n, patternStr := ← asStr ps, pattern := ← asGraph g,
             antiPatterns := ← asList asGraph aps }
  | _ => none

def ofLinks (l : List (Nat × Nat)) : SExp := ofList (fun (p : Nat × Nat) => .list [ofNat p.1, ofNat p.2]) l
def ofObs (o : List (Nat × Nat) × List Nat) : SExp := .list [ofLinks o.1, ofList ofNat o.2]
def raisedAssertion : SExp := .list [.atom "raised", .atom "Assertion"]

def asObs : SExp → Option (Option (List (Nat × Nat) × List Nat))
  | .list [.atom "raised", _] => some none
  | .list [ls, rs] => do
      let ls ← asList (asPair asNat asNat) ls
      let rs ← asList asNat rs
      pure (some (ls, rs))
  | _ => none

/-- Boolean tables over the positions of the given list -/
structure Tables where
  n : Nat
  embM : Array (Array Bool)     -- matcher: pattern i embeds into pattern j
  antiM : Array (Array Bool)    -- matcher: some anti-pattern of i embeds into pattern j
  embT : Array (Array Bool)     -- enumeration: pattern i embeds into pattern j
  antiT : Array (Array Bool)
  keys : Array (List Nat)

def tab (t : Array (Array Bool)) (i j : Nat) : Bool := (t.getD i #[]).getD j false

def mkTables (m : Perm.Mapper) (cfgs : List FGConfig) : Tables :=
  let a := cfgs.toArray
  let mk := fun (f : FGConfig → FGConfig → Bool) => a.map fun x => a.map fun y => f x y
  { n := a.size
    embM := mk fun x y => Sub.mapSubgraphToGraph y.pattern x.pattern m
    antiM := mk fun x y => x.antiPatterns.any fun ap => Sub.mapSubgraphToGraph y.pattern ap m
    embT := mk fun x y => embeds m x.pattern y.pattern
    antiT := mk fun x y => x.antiPatterns.any fun ap => embeds m ap y.pattern
    keys := a.map (·.key) }

/-- `is_subgroup` on positions from the matcher tables (mirrors `C07.isSubgroupE`) -/
def Tables.subE (t : Tables) (i j : Nat) : Option Bool :=
  if tab t.embM i j then (if tab t.embM j i then none else some (!(tab t.antiM i j))) else some false

def Tables.sub (t : Tables) (i j : Nat) : Bool := tab t.embM i j && !(tab t.embM j i) && !(tab t.antiM i j)
def Tables.klt (t : Tables) (i j : Nat) : Bool := lexLt (t.keys.getD i []) (t.keys.getD j [])
def Tables.trueSub (t : Tables) (i j : Nat) : Bool :=
  i != j && tab t.embT i j && !(tab t.embT j i) && !(tab t.antiT i j)

/-- links and roots of a built tree over the positions of the *given* list -/
def observe (t : Tree Nat) : List (Nat × Nat) × List Nat :=
  let idx := fun (i : Nat) => (t.items[i]?).getD 0
  (sortPairsN (t.st.links.map fun p => (idx p.1, idx p.2)), sortNats (t.st.roots.map idx))

def handle : List SExp → Option SExp
  | .atom "tree" :: m :: cfgs :: seed :: rest => do
      let m ← asMapper m
      let cfgs ← asList asCfg cfgs
      let seed ← asNat seed
      let t := mkTables m cfgs
      let env := Env.ofSeed seed
      let input := List.range t.n
      let modelE := buildTreeE t.subE t.klt env input
      let pure' := buildTree { sub := t.sub, klt := t.klt } env input
      let specOn := fun (o : Option (List (Nat × Nat) × List Nat)) =>
        match o with
        | some (ls, rs) => specCheck t.n t.trueSub ls rs
        | none => false
      let modelObs := modelE.map observe
      let modelOut := match modelObs with
        | some o => ofObs o
        | none => raisedAssertion
      let specImpl ← match rest with
        | [impl] => do
            let o ← asObs impl
            pure (ofBool (specOn o))
        | _ => pure none'
      let hasse := ofObs (sortPairsN (coverPairs t.n t.trueSub), sortNats (minimalIdx t.n t.trueSub))
      let agrees := input.all fun i => input.all fun j =>
        i == j || (tab t.embM i j == tab t.embT i j && tab t.antiM i j == tab t.antiT i j)
      let noMutual := input.all fun i => input.all fun j => i == j || !(tab t.embT i j && tab t.embT j i)
      let pureEq := match modelE with
        | some te => observe te == observe pure' && te.st == pure'.st
        | none => true
      pure (.list [.atom "ok", modelOut, ofBool (specOn modelObs), specImpl, hasse, ofBool agrees,
                   ofBool (hypsOk t.n t.trueSub t.klt), ofBool noMutual, ofBool pureEq])
  | _ => none

end C07
