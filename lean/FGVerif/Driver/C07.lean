import FGVerif.Driver.Shared
/-! driver operations for C07 (stub: replaced by the property's own driver) -/
namespace C07
def handle : List SExp → Option SExp := fun _ => none
end C07
