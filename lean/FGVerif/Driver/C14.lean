import FGVerif.Driver.Shared
import FGVerif.Model.C14
import FGVerif.Model.C14Choice
import FGVerif.Generated.C14
/-! driver operations for C14 (and helpers shared with the C15 driver) -/
namespace C14
open SExp C13

/-! ### wire: configurations -/

def asPGraph : SExp → Option PGraph
  | .list [g, a] => do pure { pattern := ← asGraph g, anchors := ← asList asNat a }
  | _ => none

def asGroup : SExp → Option Group
  | .list [k, n, gs] => do pure { key := ← asStr k, name := ← asStr n, graphs := ← asList asPGraph gs }
  | _ => none

def asConfig : SExp → Option Config := asList asGroup

def ofErr : Err → SExp
  | .runtime => .list [.atom "raised", .atom "RuntimeError"]
  | .value => .list [.atom "raised", .atom "ValueError"]
  | .fuel => .list [.atom "raised", .atom "Fuel"]

/-! ### canonical (order-insensitive) view of a graph: nodes in order, sorted edges without keys -/

def labelKey : Label → List Int
  | .s o => [0, o, 0]
  | .p g h => [1, g, h]
  | .nil => [2, 0, 0]

def lexLe : List Int → List Int → Bool
  | [], _ => true
  | _ :: _, [] => false
  | a :: as, b :: bs => a < b || (a == b && lexLe as bs)

def canonEdges (g : Graph) : List (List Int) :=
  (g.edges.map fun e => [min e.1 e.2.1, max e.1 e.2.1] ++ labelKey e.2.2.2).mergeSort lexLe

def canonGraph (g : Graph) : SExp :=
  .list [ofList ofNode g.nodes, ofList (ofList ofInt) (canonEdges g)]

def sortByRender (l : List SExp) : List SExp :=
  ((l.map fun s => (toString s, s)).mergeSort fun a b => a.1 ≤ b.1).map (·.2)

/-- canonical form as sent by the harness: `((node…) ((min max tag a b)…))` -/
structure Canon where
  nodes : List (Int × NodeAttr)
  edges : List (List Int)

def asCanon : SExp → Option Canon
  | .list [ns, es] => do pure { nodes := ← asList asNode ns, edges := ← asList (asList asInt) es }
  | _ => none

/-! ### fingerprints of canonical renderings (compared with zlib.adler32 / zlib.crc32 in Python) -/

def adler32 (bs : ByteArray) : UInt32 :=
  let (a, b) := bs.foldl (fun (ab : UInt32 × UInt32) x =>
    let a := (ab.1 + x.toUInt32) % 65521
    (a, (ab.2 + a) % 65521)) ((1 : UInt32), (0 : UInt32))
  (b <<< 16) ||| a

def crcTable : Array UInt32 :=
  (Array.range 256).map fun n =>
    (List.range 8).foldl (fun (c : UInt32) _ => if c &&& 1 == 1 then (c >>> 1) ^^^ 0xEDB88320 else c >>> 1) n.toUInt32

def crc32 (bs : ByteArray) : UInt32 :=
  (bs.foldl (fun (c : UInt32) x => crcTable[((c ^^^ x.toUInt32) &&& 0xFF).toNat]! ^^^ (c >>> 8)) 0xFFFFFFFF) ^^^ 0xFFFFFFFF

def fingerprint (s : SExp) : SExp :=
  let bs := (toString s).toUTF8
  .list [ofNat bs.size, ofNat (adler32 bs).toNat, ofNat (crc32 bs).toNat]

/-! ### executable specification on (canonical) results -/

def contiguousIds (ids : List Int) : Bool := ids == (List.range ids.length).map Int.ofNat

def sigOfCanon (c : Canon) : List String × List (List Int) :=
  ((c.nodes.map fun p => p.2.symbol.getD "").mergeSort (· ≤ ·), (c.edges.map fun e => e.drop 2).mergeSort lexLe)

def sigLe (a b : List String × List (List Int)) : Bool := toString a ≤ toString b

/-- expected signature of a traced model result: chosen patterns' symbols minus one "#" per replaced
    node, chosen patterns' bond labels minus the dropped ones -/
def removeOne {α} [BEq α] (x : α) : List α → List α
  | [] => []
  | y :: ys => if y == x then ys else y :: removeOne x ys

def sigOfTrace (t : Trace) : List String × List (List Int) :=
  let syms := (List.replicate t.replaced "#").foldl (fun acc x => removeOne x acc) t.symbols
  let bonds := t.dropped.foldl (fun acc x => removeOne x acc) t.bonds
  (syms.mergeSort (· ≤ ·), (bonds.map labelKey).mergeSort lexLe)

def fuelMax : Nat := 100000

/-- spec of `build_graphs` on a list of canonical results -/
def specBuild (cfg : Config) (core : Graph) (out : List Canon) : Bool :=
  out.length == numExp cfg core &&
  out.all (fun c => (c.nodes.find? fun p => isGroupNode cfg p.2).isNone && contiguousIds (c.nodes.map (·.1))) &&
  (match buildGraphsT cfg fuelMax core with
   | .ok ts => ((out.map sigOfCanon).mergeSort sigLe) == ((ts.map fun gt => sigOfTrace gt.2).mergeSort sigLe)
   | .error _ => false)

def canonOfGraph (g : Graph) : Canon := { nodes := g.nodes, edges := canonEdges g }

/-! ### the `enumeration_exact` clause: the enumeration AS A MULTISET OF CANONICAL GRAPHS is the declarative one
    (`allChoices … |>.map expand`, `Model/C14Choice.lean`; theorem `C14.enumeration_exact` / `enumeration_total`) -/

/-- rendering of a canonical graph (same text as `canonGraph` of a model graph) -/
def renderCanon (c : Canon) : String :=
  toString (SExp.list [ofList ofNode c.nodes, ofList (ofList ofInt) c.edges])

def sortStrings (l : List String) : List String := l.mergeSort fun a b => decide (a ≤ b)

/-- the clause is evaluated for enumerations of at most this many results -/
def enumLimit : Nat := 400

/-- expected `build_graphs` enumeration, declaratively: one canonical graph per choice combination -/
def enumExpected (cfg : Config) (core : Graph) : List String :=
  if numExp cfg core == 0 then []
  else (allChoices cfg core).map fun cs => renderCanon (canonOfGraph (expand cfg core cs))

/-- `some b`: the clause was evaluated with result `b`; `none`: too many results -/
def enumBuild (cfg : Config) (core : Graph) (out : List Canon) : Option Bool :=
  if numExp cfg core ≤ enumLimit then
    some (sortStrings (out.map renderCanon) == sortStrings (enumExpected cfg core))
  else none

/-- the same at the `iter(Proxy)` level: for every core every combination, finished -/
def enumIter (cfg : Config) (aam : Bool) (cores : List Graph) (out : List Canon) : Option Bool :=
  if totalExp cfg cores ≤ enumLimit then
    some (sortStrings (out.map renderCanon) == sortStrings (cores.flatMap fun c =>
      if numExp cfg c == 0 then []
      else (allChoices cfg c).map fun cs => renderCanon (canonOfGraph (finish aam (expand cfg c cs)))))
  else none

def ofOptBool : Option Bool → SExp
  | some b => ofBool b
  | none => none'

/-- remove one occurrence of `x` (compared by rendering); `none` = not there -/
def takeOut (x : List String × List (List Int)) :
    List (List String × List (List Int)) → Option (List (List String × List (List Int)))
  | [] => none
  | y :: ys => if toString y == toString x then some ys else (takeOut x ys).map (y :: ·)

/-- conservation at the `iter(Proxy)` level on a list of canonical samples (any order) against the traced
    model enumeration: the symbol multisets of all samples are those of the traces; every trace whose
    `build_graphs` result satisfies the side condition `sideOk` (no parallel bonds to collapse) is matched by a
    distinct sample with exactly its symbols and bond labels -/
def specIter (rs : List (Graph × Graph × Trace)) (out : List Canon) : Bool :=
  let sigs := out.map sigOfCanon
  let symLe : List String → List String → Bool := fun a b => decide (toString a ≤ toString b)
  ((sigs.map (·.1)).mergeSort symLe == (rs.map fun (r : Graph × Graph × Trace) => (sigOfTrace r.2.2).1).mergeSort symLe) &&
  ((rs.filter fun (r : Graph × Graph × Trace) => sideOk r.1).foldl (fun (acc : Option (List (List String × List (List Int)))) (r : Graph × Graph × Trace) =>
      acc.bind (takeOut (sigOfTrace r.2.2))) (some sigs)).isSome

/-- the conservation clause of the property at the `iter(Proxy)` level, UNCONDITIONALLY: every trace of the
    model enumeration — whether or not its `build_graphs` result carries parallel bonds — is matched by a
    distinct sample with exactly its symbols and exactly its bond labels (multisets).  This is what the
    property states; it is false for configurations that create parallel bonds (known finding K7: the
    MultiGraph→Graph collapse in `Proxy.__generate` drops them), where `specIter` (side condition) still holds. -/
def specIterAll (rs : List (Graph × Graph × Trace)) (out : List Canon) : Bool :=
  -- a perfect matching of traces and samples with equal signatures = equality of the two multisets of
  -- signatures (compared as sorted lists, as `specBuild` does)
  out.length == rs.length &&
  ((out.map sigOfCanon).mergeSort sigLe) == ((rs.map fun (r : Graph × Graph × Trace) => sigOfTrace r.2.2).mergeSort sigLe)

def refTable (t : List (String × String × List (String × List Nat × List (List String)))) : RefConfig :=
  t.map fun g => (g.1, g.2.2.map (·.2.2))

def whichTable : String → Option (List (String × String × List (String × List Nat × List (List String))) ×
    List (String × List Nat × List (List String)))
  | "da_pos" => some (Gen.C14.daPos, Gen.C14.daPosCores)
  | "da_neg" => some (Gen.C14.daNeg, Gen.C14.daNegCores)
  | "common" => some (Gen.C14.common, [])
  | _ => none

def handle : List SExp → Option SExp
  -- one step, exact graphs
  | .atom "next" :: cfg :: g :: _rest => do
      let cfg ← asConfig cfg
      let g ← asGraph g
      let out := match replaceNextNode cfg g with
        | .ok none => none'
        | .ok (some gs) => ofList ofGraph gs
        | .error e => ofErr e
      pure (.list [.atom "ok", out, ofBool true, none'])
  -- build_graphs: sorted canonical results + spec on the implementation's list
  | .atom "build" :: cfg :: core :: rest => do
      let cfg ← asConfig cfg
      let core ← asGraph core
      let res := buildGraphs cfg fuelMax core
      let model := match res with
        | .ok gs => .list (sortByRender (gs.map canonGraph))
        | .error e => ofErr e
      -- the `enumeration_exact` clause on the model's own results (what the theorem says of them)
      let enumModel := match res with
        | .ok gs => enumBuild cfg core (gs.map canonOfGraph)
        | .error _ => none
      let specModel := match res with
        | .ok gs => specBuild cfg core (gs.map canonOfGraph) && enumModel.getD true &&
            (match buildGraphsT cfg fuelMax core with
             | .ok ts => ts.all conservedB && ts.map (·.1.nodes) == gs.map (·.nodes)
             | .error _ => false)
        | .error _ => true
      -- `enumImpl`: the `enumeration_exact` clause on the implementation's list (`_` = not evaluated)
      let (specImpl, enumImpl) ← match rest with
        | [.list [.atom "raised", .atom k]] => pure (ofBool (match res with
            | .error e => toString (ofErr e) == toString (SExp.list [.atom "raised", .atom k])
            | .ok _ => false), none')
        | [impl] => do
            let out ← asList asCanon impl
            let en := match res with | .ok _ => enumBuild cfg core out | .error _ => none
            pure (ofBool (match res with | .ok _ => specBuild cfg core out && en.getD true | .error _ => false),
                  ofOptBool en)
        | _ => pure (none', none')
      pure (.list [.atom "ok", model, ofBool specModel, specImpl, ofNat (numExp cfg core),
                   ofBool (acyclicB (toRef cfg)), ofBool (cfgOk cfg), ofBool (hypothesesOk cfg core),
                   enumImpl, ofOptBool enumModel])
  -- iter(Proxy): sorted canonical finished graphs
  | .atom "generate" :: cfg :: cores :: aam :: rest => do
      let cfg ← asConfig cfg
      let cores ← asList asGraph cores
      let aam ← asBool aam
      let res := generate cfg fuelMax aam cores
      let resT := generateT cfg fuelMax aam cores
      let model := match res with
        | .ok gs => .list (sortByRender (gs.map canonGraph))
        | .error e => ofErr e
      let okOne := fun (c : Canon) =>
        (c.nodes.find? fun p => isGroupNode cfg p.2).isNone && contiguousIds (c.nodes.map (·.1)) &&
        (!aam || c.nodes.all fun p => p.2.aam == some (p.1 + 1))
      -- `specImpl`: the property as stated — count, shape, and bond conservation for ALL samples (`specIterAll`);
      -- `relaxedImpl`: the same with bond conservation only under the side condition `sideOk` (what the theorems
      -- prove of the model); the harness classifies `specImpl = 0 ∧ relaxedImpl = 1 ∧ nSideFail > 0 ∧
      -- implementation == model` as known finding K7 and everything else with `specImpl = 0` as a violation
      let (specImpl, relaxedImpl, enumImpl) ← match rest with
        | [.list [.atom "raised", .atom k]] =>
            let b := ofBool (match res with
              | .error e => toString (ofErr e) == toString (SExp.list [.atom "raised", .atom k])
              | .ok _ => false)
            pure (b, b, none')
        | [impl] => do
            let out ← asList asCanon impl
            pure (match res, resT with
              | .ok _, .ok rs =>
                  -- `enumeration_exact` clause at the iter level (`C14.enumeration_total`): the samples are, as a
                  -- multiset of canonical graphs, the finished expansions of all combinations of all cores
                  let en := enumIter cfg aam cores out
                  let base := out.length == totalExp cfg cores && out.all okOne && en.getD true
                  (ofBool (base && specIter rs out && specIterAll rs out), ofBool (base && specIter rs out), ofOptBool en)
              | _, _ => (ofBool false, ofBool false, none'))
        | _ => pure (none', none', none')
      -- the traced enumeration: projection = plain enumeration; every sample conserved (symbols always, bonds
      -- under the side condition); the model's own samples pass the check applied to the implementation's
      let specModel := match res, resT with
        | .ok gs, .ok rs => rs.map (·.2.1.nodes) == gs.map (·.nodes) && rs.all conservedIterB &&
            specIter rs (gs.map canonOfGraph) && (enumIter cfg aam cores (gs.map canonOfGraph)).getD true
        | .error _, .error _ => true
        | _, _ => false
      let nRes := match resT with | .ok rs => rs.length | .error _ => 0
      let nSideFail := match resT with | .ok rs => (rs.filter fun r => !sideOk r.1).length | .error _ => 0
      pure (.list [.atom "ok", model, ofBool specModel, specImpl, ofNat (totalExp cfg cores),
                   ofNat nRes, ofNat nSideFail, relaxedImpl, enumImpl])
  -- the generated table of a shipped collection against the configuration the harness extracted
  | .atom "table" :: .atom which :: cfg :: cores :: _ => do
      let cfg ← asConfig cfg
      let cores ← asList asGraph cores
      let (t, tc) ← whichTable which
      let refsOk := toRef cfg == refTable t && cfg.map (·.name) == t.map (·.2.1) &&
        cfg.map (fun g => g.graphs.map (·.anchors)) == t.map (fun g => g.2.2.map (·.2.1)) &&
        cores.map (refsOf cfg) == tc.map (·.2.2)
      pure (.list [.atom "ok", ofBool refsOk, ofBool true, none',
                   ofNat (totalExpRef (refTable t) (tc.map (·.2.2))), ofNat (totalExp cfg cores),
                   ofBool (acyclicB (refTable t)), ofBool (cfgOk cfg)])
  -- whole enumeration as fingerprints (in order), with the model-side spec flags
  | .atom "enum_fp" :: cfg :: cores :: aam :: _ => do
      let cfg ← asConfig cfg
      let cores ← asList asGraph cores
      let aam ← asBool aam
      match generate cfg fuelMax aam cores with
      | .error e => pure (.list [.atom "ok", ofErr e, ofBool true, none'])
      | .ok gs =>
        let conserved := cores.all fun core =>
          match buildGraphsT cfg fuelMax core with
          | .ok ts => ts.all conservedB
          | .error _ => false
        -- number of `build_graphs` results with parallel bonds (side condition of bond conservation at the
        -- `iter(Proxy)` level fails: the collapse drops bonds — known finding K7 when the implementation equals the model)
        let nSideFail := cores.foldl (fun acc core =>
          match buildGraphsT cfg fuelMax core with
          | .ok ts => acc + (ts.filter fun gt => !sideOk gt.1).length
          | .error _ => acc) 0
        pure (.list [.atom "ok", ofList (fun g => fingerprint (canonGraph g)) gs, ofBool true, none',
                     ofNat gs.length, ofBool conserved, ofNat nSideFail])
  -- per-result checks on implementation outputs (canonical forms), thorough tier
  | .atom "check_results" :: cfg :: aam :: outs :: _ => do
      let cfg ← asConfig cfg
      let aam ← asBool aam
      let outs ← asList asCanon outs
      let okOne := fun (c : Canon) =>
        (c.nodes.find? fun p => isGroupNode cfg p.2).isNone && contiguousIds (c.nodes.map (·.1)) &&
        (!aam || c.nodes.all fun p => p.2.aam == some (p.1 + 1))
      pure (.list [.atom "ok", ofList (fun c => ofBool (okOne c)) outs, ofBool true, ofBool (outs.all okOne)])
  | _ => none

end C14
