import FGVerif.Driver.Shared
/-! driver operations for C14 (stub: replaced by the property's own driver) -/
namespace C14
def handle : List SExp → Option SExp := fun _ => none
end C14
