import FGVerif.Wire
import FGVerif.Model.C10
import FGVerif.Driver.C09
/-! driver operations for C10 -/
namespace C10
open SExp C09

def asLab : SExp → Option Lab
  | .list [g, h] => do pure (.p (← asInt g) (← asInt h))
  | x => (asInt x).map .s

def ofLab : Lab → SExp
  | .s o => ofInt o
  | .p g h => .list [ofInt g, ofInt h]

/-- `(u v label)` -/
def asLEdge : SExp → Option (Int × Int × Lab)
  | .list [u, v, l] => do pure (← asInt u, ← asInt v, ← asLab l)
  | _ => none

/-- ITS graph with optional symbols: `((id sym|_ aam|_) …) ((u v label) …)` -/
def asGrO : SExp → Option (Gr (Option String) Lab)
  | .list [ns, es] => do pure { nodes := ← asList asINode ns, edges := ← asList asLEdge es }
  | _ => none

/-- ITS graph whose nodes all have symbols -/
def asGrS : SExp → Option (Gr String Lab)
  | .list [ns, es] => do pure { nodes := ← asList asMolNode ns, edges := ← asList asLEdge es }
  | _ => none

def ofLEdge (e : Int × Int × Lab) : SExp := .list [ofInt e.1, ofInt e.2.1, ofLab e.2.2]
def ofGrO (g : Gr (Option String) Lab) : SExp := .list [ofList ofINode g.nodes, ofList ofLEdge g.edges]

def ofPairGr (gh : Gr (Option String) Lab × Gr (Option String) Lab) : SExp :=
  .list [ofGrO (canonGr gh.1), ofGrO (canonGr gh.2)]

def asPairGr : SExp → Option (Gr (Option String) Lab × Gr (Option String) Lab)
  | .list [g, h] => do pure (← asGrO g, ← asGrO h)
  | _ => none

/-- `(split <I> [(<g> <h>)])`            → `(ok (<g> <h>) spec_model spec_impl <simple graph>)`
    `(resuper <I> [<ITS>])`              → `(ok <ITS> spec_model spec_impl <in domain>)`
    `(split_of_its <G> <H> [(<g> <h>)])` → `(ok (<g> <h>) spec_model spec_impl <fully mapped>)` -/
def handle : List SExp → Option SExp
  | .atom "split" :: i :: rest => do
      let I ← asGrO i
      let model := splitIts I
      let specImpl ← match rest with
        | [impl] =>
            if isRaised impl then pure (ofBool false) else do
              let gh ← asPairGr impl
              pure (ofBool (splitCheck I gh.1 gh.2))
        | _ => pure none'
      pure (.list [.atom "ok", ofPairGr model, ofBool (splitCheck I model.1 model.2), specImpl,
                   ofBool (simpleOk I)])
  | .atom "resuper" :: i :: rest => do
      let I ← asGrS i
      let model ← resuper I
      let want := nameByAam I
      let specImpl ← match rest with
        | [impl] =>
            if isRaised impl then pure (ofBool false) else do
              let J ← asIts impl
              pure (ofBool (sameIts J want))
        | _ => pure none'
      pure (.list [.atom "ok", ofIts (canonIts model), ofBool (sameIts model want), specImpl,
                   ofBool (itsOk I)])
  | .atom "split_of_its" :: g :: h :: rest => do
      let G ← asMol g
      let H ← asMol h
      let model := splitOfIts G H
      let specImpl ← match rest with
        | [impl] =>
            if isRaised impl then pure (ofBool false) else do
              let gh ← asPairGr impl
              pure (ofBool (splitOfItsCheck G H gh.1 gh.2))
        | _ => pure none'
      pure (.list [.atom "ok", ofPairGr model, ofBool (splitOfItsCheck G H model.1 model.2), specImpl,
                   ofBool (fullyMapped G H)])
  | _ => none

end C10
