import FGVerif.Driver.Shared
/-! driver operations for C10 (stub: replaced by the property's own driver) -/
namespace C10
def handle : List SExp → Option SExp := fun _ => none
end C10
