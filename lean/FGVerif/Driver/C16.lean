import FGVerif.Driver.Shared
import FGVerif.Model.C16
/-!
  driver operations for C16

  `(C16 apply <g> <rc> <matches> <hashes> <n|_> <unique> <connected> [<impl>])`
      g, rc    wire graphs (`common.enc_graph`); rc labels are pairs (a scalar `b` counts as `(b b)`)
      matches  `(((gnode rulenode) …) …)`  VF2's mappings in VF2's order (dict order inside)
      hashes   `(s:<hex> …)` one per mapping: networkx's 3-round WL hash of the ITS graph the
               specification prescribes for that mapping (built in Python by the harness)
      impl     `((<its> …) <g after the call>)` or `(raised <Kind>)`,
               its := `(((id sym) …) ((u v left right) …))` nodes sorted, edges u ≤ v sorted,
               the list sorted by its rendering
    reply `(ok ((<its> …) <g>) spec_model spec_impl contract_ok clause #monos #matches inputsWF)`
      inputsWF  `inputsWFB g rc`: the hypotheses of `C16.specCheck_sound` / `C16.applyRule_spec` hold for this request
      a result node without a symbol (`(id _)`) is not a decode error: the clause `nodes` fails

  `(C16 rcgraph <L> <C> <R> [<impl>])`  reply `(ok <its>|(raised K) 1 spec_impl)`
-/
namespace C16
open SExp

def insertBy {α : Type} (le : α → α → Bool) (x : α) : List α → List α
  | [] => [x]
  | y :: ys => if le x y then x :: y :: ys else y :: insertBy le x ys

def isort {α : Type} (le : α → α → Bool) (l : List α) : List α := l.foldr (insertBy le) []

def labelPair : Label → Option (Int × Int)
  | .p g h => some (g, h)
  | .s o => some (o, o)
  | .nil => none

def labelScalar : Label → Option Int
  | .s o => some o
  | _ => none

def nodesOf (G : Graph) : Option (List (Int × String)) :=
  G.nodes.mapM fun n => n.2.symbol.map fun s => (n.1, s)

def toMol (G : Graph) : Option MolGraph := do
  let ns ← nodesOf G
  let es ← G.edges.mapM fun e => (labelScalar e.2.2.2).map fun b => (e.1, e.2.1, b)
  pure ⟨ns, es⟩

def toIts (G : Graph) : Option ITSGraph := do
  let ns ← nodesOf G
  let es ← G.edges.mapM fun e => (labelPair e.2.2.2).map fun b => (e.1, e.2.1, b)
  pure ⟨ns, es⟩

/-- canonical edge list: end points ordered, list sorted -/
def canonEdges (es : List (E (Int × Int))) : List (E (Int × Int)) :=
  isort (fun a b => a.1 < b.1 || (a.1 == b.1 && a.2.1 ≤ b.2.1))
    (es.map fun e => if e.1 ≤ e.2.1 then e else (e.2.1, e.1, e.2.2))

def ofItsNodes (ns : List (Int × Option String)) : SExp :=
  ofList (fun (n : Int × Option String) => .list [ofInt n.1, ofOpt ofStr n.2])
    (isort (fun a b => a.1 ≤ b.1) ns)

def ofItsEdges (es : List (E (Int × Int))) : SExp :=
  ofList (fun (e : E (Int × Int)) => .list [ofInt e.1, ofInt e.2.1, ofInt e.2.2.1, ofInt e.2.2.2])
    (canonEdges es)

def ofIts (g : ITSGraph) : SExp :=
  .list [ofItsNodes (g.nodes.map fun n => (n.1, some n.2)), ofItsEdges g.edges]

/-- a result as it came from the implementation; a node may lack its symbol (`(id _)`) -/
def asItsRaw : SExp → Option (List (Int × Option String) × List (E (Int × Int)))
  | .list [ns, es] => do
      let ns ← asList (asPair asInt (asOpt asStr)) ns
      let es ← asList (fun x => match x with
        | .list [u, v, a, b] => do pure ((← asInt u), (← asInt v), ((← asInt a), (← asInt b)))
        | _ => none) es
      pure (ns, es)
  | _ => none

/-- every node carries a symbol -/
def rawToIts (r : List (Int × Option String) × List (E (Int × Int))) : Option ITSGraph := do
  let ns ← r.1.mapM fun n => n.2.map fun s => (n.1, s)
  pure ⟨ns, r.2⟩

/-- the wire form of a result lists its nodes sorted by id; node order is not observable, so a
    result with `g`'s node set is given `g`'s node order back before the specification reads it -/
def restoreOrder (g : MolGraph) (its : ITSGraph) : ITSGraph :=
  let le := fun (a b : Int × String) => a.1 < b.1 || (a.1 == b.1 && decide (a.2 ≤ b.2))
  if isort le its.nodes == isort le g.nodes then { its with nodes := g.nodes } else its

def sortRendered (l : List SExp) : List SExp := isort (fun a b => decide (render a ≤ render b)) l

def isRaised : SExp → Bool
  | .list [.atom "raised", _] => true
  | _ => false

def handleApply (gx rcx msx hsx nx ux cx : SExp) (rest : List SExp) : Option SExp := do
  let g ← toMol (← asGraph gx)
  let rc ← toIts (← asGraph rcx)
  let ms ← asList (asList (asPair asInt asInt)) msx
  let hs ← asList asStr hsx
  let n ← asOpt asNat nx
  let unique ← asBool ux
  let conn ← asBool cx
  if hs.length != ms.length then none
  let rule := mkRule rc
  let table := ms.zip hs
  let wl : ITSGraph → Hash := fun its =>
    match table.find? (fun p => isExpectedB g rc p.1 its) with
    | some p => p.2
    | none => "?"
  let contract := contractOk g rule.l ms
  let model := applyRule wl g rule ms n unique conn
  let enc := fun (rs : List ITSGraph) (gAfter : SExp) => SExp.list [.list (sortRendered (rs.map ofIts)), gAfter]
  let clauseModel := specClause wl g rc n unique conn model
  let (specImpl, clause) ← match rest with
    | [impl] =>
        if isRaised impl then pure (ofBool false, "raised")
        else match impl with
          | .list [rs, gAfter] => do
              let raw ← asList asItsRaw rs
              if !(gAfter == gx) then pure (ofBool false, "input_untouched")
              else match raw.mapM rawToIts with
                | none => pure (ofBool false, "nodes")   -- a result node without a symbol: not `g`'s nodes
                | some rs =>
                  match specClause wl g rc n unique conn (rs.map (restoreOrder g)) with
                  | some c => pure (ofBool false, c)
                  | none => pure (ofBool true, "-")
          | _ => none
    | _ => pure (none', "-")
  pure (.list [.atom "ok", enc model gx, ofBool clauseModel.isNone, specImpl, ofBool contract,
               .atom clause, ofNat (monos g rule.l).length, ofNat ms.length, ofBool (inputsWFB g rc)])

/-! ### `to_rc_graph` -/

def ofRcOut (o : RcOut) : SExp := .list [ofItsNodes o.nodes, ofItsEdges o.edges]

def handleRc (lx cx rx : SExp) (rest : List SExp) : Option SExp := do
  let l ← toMol (← asGraph lx)
  let c ← toMol (← asGraph cx)
  let r ← toMol (← asGraph rx)
  let model := toRcGraph l c r
  let encModel : SExp := match model with
    | .ok o => ofRcOut o
    | .error .assertion => .list [.atom "raised", .atom "Assertion"]
    | .error .valueError => .list [.atom "raised", .atom "ValueError"]
  let specImpl ← match rest with
    | [impl] =>
        match model with
        | .error _ => pure (ofBool (impl == encModel))   -- the call must refuse, the same way
        | .ok _ =>
          if isRaised impl then pure (ofBool false)
          else match impl with
            | .list [ns, es] => do
                let ns ← asList (asPair asInt (asOpt asStr)) ns
                let es ← asList (fun x => match x with
                  | .list [u, v, a, b] => do pure ((← asInt u), (← asInt v), ((← asInt a), (← asInt b)))
                  | _ => none) es
                pure (ofBool (rcSpecB l c r ns es))
            | _ => none
    | _ => pure none'
  let specModel := match model with
    | .ok o => rcSpecB l c r o.nodes o.edges
    | .error _ => true
  pure (.list [.atom "ok", encModel, ofBool specModel, specImpl])

def handle : List SExp → Option SExp
  | .atom "apply" :: g :: rc :: ms :: hs :: n :: u :: c :: rest => handleApply g rc ms hs n u c rest
  | .atom "rcgraph" :: l :: c :: r :: rest => handleRc l c r rest
  | _ => none

end C16
