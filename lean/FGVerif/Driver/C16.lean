import FGVerif.Driver.Shared
/-! driver operations for C16 (stub: replaced by the property's own driver) -/
namespace C16
def handle : List SExp → Option SExp := fun _ => none
end C16
