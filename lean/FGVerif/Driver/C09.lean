import FGVerif.Driver.Shared
/-! driver operations for C09 (stub: replaced by the property's own driver) -/
namespace C09
def handle : List SExp → Option SExp := fun _ => none
end C09
