import FGVerif.Wire
import FGVerif.Model.C09
/-! driver operations for C09 -/
namespace C09
open SExp

/-- `(id sym aam|_)` -/
def asMolNode : SExp → Option (Int × String × Option Int)
  | .list [i, s, a] => do pure (← asInt i, ← asStr s, ← asOpt asInt a)
  | _ => none

/-- `(u v order)` -/
def asMolEdge : SExp → Option (Int × Int × Int)
  | .list [u, v, l] => do pure (← asInt u, ← asInt v, ← asInt l)
  | _ => none

/-- `((node …) (edge …))` -/
def asMol : SExp → Option Mol
  | .list [ns, es] => do pure { nodes := ← asList asMolNode ns, edges := ← asList asMolEdge es }
  | _ => none

/-- `(id sym|_ aam|_)` -/
def asINode : SExp → Option INode
  | .list [i, s, a] => do pure (← asInt i, ← asOpt asStr s, ← asOpt asInt a)
  | _ => none

/-- `(u v (g h))` -/
def asIEdge : SExp → Option IEdge
  | .list [u, v, .list [g, h]] => do pure (← asInt u, ← asInt v, (← asInt g, ← asInt h))
  | _ => none

def asIts : SExp → Option Its
  | .list [ns, es] => do pure { nodes := ← asList asINode ns, edges := ← asList asIEdge es }
  | _ => none

def ofINode (x : INode) : SExp := .list [ofInt x.1, ofOpt ofStr x.2.1, ofOpt ofInt x.2.2]
def ofIEdge (e : IEdge) : SExp := .list [ofInt e.1, ofInt e.2.1, .list [ofInt e.2.2.1, ofInt e.2.2.2]]
def ofIts (I : Its) : SExp := .list [ofList ofINode I.nodes, ofList ofIEdge I.edges]

def isRaised : SExp → Bool
  | .list (.atom "raised" :: _) => true
  | _ => false

/-- `(its <G> <H> [<impl ITS> | (raised Kind)])` →
    `(ok <model ITS, canonical> <spec on model> <spec on impl> <in domain>)` -/
def handle : List SExp → Option SExp
  | .atom "its" :: g :: h :: rest => do
      let G ← asMol g
      let H ← asMol h
      let model := getIts G H
      let specImpl ← match rest with
        | [impl] =>
            if isRaised impl then pure (ofBool false) else do
              let I ← asIts impl
              pure (ofBool (specCheck G H I))
        | _ => pure none'
      pure (.list [.atom "ok", ofIts (canonIts model), ofBool (specCheck G H model), specImpl,
                   ofBool (domOk G && domOk H)])
  | _ => none

end C09
