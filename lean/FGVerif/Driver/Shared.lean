import FGVerif.Wire
import FGVerif.Model.Graph
import FGVerif.Model.Permutation
/-! decoders shared by several drivers -/
namespace SExp
open Perm

/-- `(wildcard|_ ignoreCase (cmtn …))` -/
def asMapper : SExp → Option Mapper
  | .list [w, ic, c] => do
      pure { wildcard := ← asOpt asStr w, ignoreCase := ← asBool ic, canMapToNothing := ← asList asStr c }
  | _ => none

def ofPairs (l : List (Int × Int)) : SExp := ofList (fun (p : Int × Int) => .list [ofInt p.1, ofInt p.2]) l

/-- insertion sort on pairs, then removal of adjacent duplicates: canonical form of a Python set of pairs -/
def sortPairs (l : List (Int × Int)) : List (Int × Int) :=
  let le := fun (a b : Int × Int) => a.1 < b.1 || (a.1 == b.1 && a.2 ≤ b.2)
  let rec ins (x : Int × Int) : List (Int × Int) → List (Int × Int)
    | [] => [x]
    | y :: ys => if le x y then (if x == y then y :: ys else x :: y :: ys) else y :: ins x ys
  l.foldr ins []

def sortInts (l : List Int) : List Int :=
  let rec ins (x : Int) : List Int → List Int
    | [] => [x]
    | y :: ys => if x ≤ y then (if x == y then y :: ys else x :: y :: ys) else y :: ins x ys
  l.foldr ins []

end SExp
