import FGVerif.Driver.Shared
/-! driver operations for C02 (stub: replaced by the property's own driver) -/
namespace C02
def handle : List SExp → Option SExp := fun _ => none
end C02
