import FGVerif.Driver.C01
import FGVerif.Model.C02
/-!
  driver operations for C02

  (check <chain> <str> <rdkit canon | (raised K)> <impl canon | (raised K)>)
    → (ok <model canon> <spec_model> <spec_impl> <rdkit agrees with smilesDenote 0|1> <Plain> <WFRef>)
-/
namespace C02
open SExp C01

/-- RDKit's atom symbol for a written one (`c ↦ C`), from the generated `sym_map` -/
def rdkitSym (s : String) : String :=
  match Gen.rdkitSymMap.lookup s with
  | some t => t
  | none => s

/-- the view `mol_to_graph` gives: symbols only (aromatic atoms upper-cased), same edges -/
def rdkitView (g : Graph) : SExp :=
  canonOf g.multi
    (g.nodes.map fun n => (n.1, ({ symbol := n.2.symbol.map rdkitSym } : NodeAttr)))
    (g.edges.map fun e => (e.1, e.2.1, e.2.2.2))

def handle : List SExp → Option SExp
  | [.atom "check", c, s, rd, impl] => do
      let c ← asChain c
      let s ← asStr s
      if renderStr c != s then none
      let d := smilesDenote c
      let want := canonGraph d
      let flags := [ofBool (rd == rdkitView d), ofBool (Plain c), ofBool (WFRef false c)]
      match parse ⟨false, false⟩ s 0 with
      | .ok g => pure (.list ([.atom "ok", canonGraph g, ofBool (canonGraph g == want), ofBool (impl == want)] ++ flags))
      | .error e => pure (.list ([.atom "ok", ofErr e, ofBool false, ofBool (impl == want)] ++ flags))
  | _ => none

end C02
