import FGVerif.Driver.Shared
/-! driver operations for C04 (stub: replaced by the property's own driver) -/
namespace C04
def handle : List SExp → Option SExp := fun _ => none
end C04
