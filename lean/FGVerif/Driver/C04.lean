import FGVerif.Driver.C03
/-! driver operations for C04: the operations of `Driver/C03.lean`, with `spec_*` computed from
    the C04 clauses (`c04_not_embedding`, `c04_false_negative_acyclic`, `raised`) -/
namespace C04
def handle : List SExp → Option SExp := C03.handleFor .c04
end C04
