import FGVerif.Wire
import FGVerif.Model.C18
/-! driver operations for C18 -/
namespace C18
open SExp

def asBond : SExp → Option Bond := asOpt asInt

def asEdge : SExp → Option Edge
  | .list [u, v, g, h] => do pure { u := ← asInt u, v := ← asInt v, g := ← asBond g, h := ← asBond h }
  | _ => none

/-- `(((id sym) …) ((u v g h) …))` -/
def asITS : SExp → Option ITS
  | .list [ns, es] => do
      pure { nodes := ← asList (asPair asInt asStr) ns, edges := ← asList asEdge es }
  | _ => none

/-- `((row …) ((u v) …) (row …))` -/
def asTData : SExp → Option TData
  | .list [x, ei, ea] => do
      pure { x := ← asList (asList asInt) x, ei := ← asList (asPair asNat asNat) ei,
             ea := ← asList (asList asInt) ea }
  | _ => none

def asNxG : SExp → Option NxG
  | .list [ns, es] => do
      let nodes ← asList (asPair asInt (asOpt asStr)) ns
      let edges ← asList (fun e => match e with
        | .list [a, b, attr] => do pure ((← asInt a), (← asInt b), (← asList asInt attr))
        | _ => none) es
      pure { nodes := nodes, edges := edges }
  | _ => none

def ofTData (t : TData) : SExp :=
  .list [ofList (ofList ofInt) t.x,
         ofList (fun (p : Nat × Nat) => .list [ofNat p.1, ofNat p.2]) t.ei,
         ofList (ofList ofInt) t.ea]

/-- graphs travel with canonical (sorted, smaller end first) edges -/
def ofNxG (G : NxG) : SExp :=
  .list [ofList (fun (n : Int × Option String) => .list [ofInt n.1, ofOpt ofStr n.2]) G.nodes,
         ofList (fun (e : Int × Int × List Int) => .list [ofInt e.1, ofInt e.2.1, ofList ofInt e.2.2])
           (canonEdges G.edges)]

def raised (k : String) : SExp := .list [.atom "raised", .atom k]

def isRaised : SExp → Bool
  | .list [.atom "raised", _] => true
  | _ => false

def reply (model : SExp) (specModel : Bool) (specImpl : SExp) : Option SExp :=
  some (.list [.atom "ok", model, ofBool specModel, specImpl])

/-- spec on an optional implementation output: `_` when absent, `0` when it raised or does not decode -/
def onImpl (rest : List SExp) (f : SExp → Option Bool) : SExp :=
  match rest with
  | [impl] => if isRaised impl then ofBool false else
      match f impl with
      | some b => ofBool b
      | none => ofBool false
  | _ => none'

def zipAll {α β} (f : α → β → Bool) : List α → List β → Bool
  | [], [] => true
  | a :: as, b :: bs => f a b && zipAll f as bs
  | _, _ => false

def rtSpec (tf : Nat) (I : ITS) (t : TData) (G : NxG) : Bool :=
  xCheck tf I t && rtCheck (efOf tf) I G

def handle : List SExp → Option SExp
  | [.atom "reftable"] => reply (ofList ofStr refSymbols) true none'
  | .atom "roundtrip" :: tf :: i :: rest => do
      let tf ← asNat tf
      let I ← asITS i
      if !I.elementSymbols then reply (raised "KeyError") true (onImpl rest fun _ => some false) else
      if !I.hasEdge then reply (raised "Assertion") true (onImpl rest fun _ => some false) else
      let t := toTorchWith (nfOf tf sym2num) (efOf tf) I
      match fromTorchWith (nftOf tf) t with
      | none => reply (raised "Assertion") false (onImpl rest fun _ => some false)
      | some G =>
        let specImpl := onImpl rest fun impl => match impl with
          | .list [ti, gi] => do pure (rtSpec tf I (← asTData ti) (← asNxG gi))
          | _ => none
        reply (.list [ofTData t, ofNxG G]) (rtSpec tf I t G) specImpl
  | .atom "batch" :: tf :: is :: rest => do
      let tf ← asNat tf
      let Is ← asList asITS is
      if !(Is.all fun I => I.elementSymbols) then reply (raised "KeyError") true (onImpl rest fun _ => some false) else
      if !(Is.all fun I => I.hasEdge) then reply (raised "Assertion") true (onImpl rest fun _ => some false) else
      let ts := Is.map (toTorchWith (nfOf tf sym2num) (efOf tf))
      let b := toTorchList (nfOf tf sym2num) (efOf tf) Is
      let spec := fun (tb : TData) (bv : List Nat) (ts : List TData) (Gs : List NxG) =>
        decide ((tb, bv) = batchOf ts) && zipAll (xCheck tf) Is ts && zipAll (rtCheck (efOf tf)) Is Gs
      match fromTorchBatchWith (nftOf tf) b.1 b.2 with
      | none => reply (raised "Assertion") false (onImpl rest fun _ => some false)
      | some Gs =>
        let specImpl := onImpl rest fun impl => match impl with
          | .list [tb, bv, tsi, gsi] => do
              pure (spec (← asTData tb) (← asList asNat bv) (← asList asTData tsi) (← asList asNxG gsi))
          | _ => none
        reply (.list [ofTData b.1, ofList ofNat b.2, ofList ofTData ts, ofList ofNxG Gs])
          (spec b.1 b.2 ts Gs) specImpl
  | .atom "frombatch" :: tf :: t :: bv :: rest => do
      let tf ← asNat tf
      let t ← asTData t
      let bv ← asList asNat bv
      match fromTorchBatchWith (nftOf tf) t bv with
      | none => reply (raised "Assertion") true (onImpl rest fun _ => some false)
      | some Gs =>
        let m := ofList ofNxG Gs
        reply m true (onImpl rest fun impl => some (impl == m))
  | .atom "nodeind" :: tf :: i :: s :: rest => do
      let tf ← asNat tf
      let I ← asITS i
      let S ← asList asInt s
      let m := nodeInduced (toTorchWith (nfOf tf sym2num) (efOf tf) I) (S.map I.pos)
      let want := toTorchWith (nfOf tf refSym2num) (efOf tf) (nodeSub I S)
      reply (ofTData m) (decide (m = want)) (onImpl rest fun impl => do pure (decide ((← asTData impl) = want)))
  | .atom "edgeind" :: tf :: i :: e :: rest => do
      let tf ← asNat tf
      let I ← asITS i
      let E ← asList asNat e
      let m := edgeInduced (toTorchWith (nfOf tf sym2num) (efOf tf) I) (edgeCols E)
      let want := toTorchWith (nfOf tf refSym2num) (efOf tf) (edgeSub I E)
      reply (ofTData m) (decide (m = want)) (onImpl rest fun impl => do pure (decide ((← asTData impl) = want)))
  | .atom "nodeind_t" :: t :: ns :: rest => do
      let t ← asTData t
      let ns ← asList asNat ns
      let m := nodeInduced t ns
      reply (ofTData m) true (onImpl rest fun impl => do pure (decide ((← asTData impl) = m)))
  | .atom "edgeind_t" :: t :: es :: rest => do
      let t ← asTData t
      let es ← asList asNat es
      let m := edgeInduced t es
      reply (ofTData m) true (onImpl rest fun impl => do pure (decide ((← asTData impl) = m)))
  | .atom "prune" :: t :: ss :: r :: rest => do
      let t ← asTData t
      let ss ← asList asNat ss
      let r ← asNat r
      let m := prune t ss r
      reply (ofTData m) (pruneCheck t ss r m) (onImpl rest fun impl => do pure (pruneCheck t ss r (← asTData impl)))
  | .atom "prunerc" :: t :: r :: rest => do
      let t ← asTData t
      let r ← asNat r
      let m := pruneRc t r
      reply (ofTData m) (pruneRcCheck t r m) (onImpl rest fun impl => do pure (pruneRcCheck t r (← asTData impl)))
  | _ => none

end C18
