import FGVerif.Driver.Shared
/-! driver operations for C18 (stub: replaced by the property's own driver) -/
namespace C18
def handle : List SExp → Option SExp := fun _ => none
end C18
