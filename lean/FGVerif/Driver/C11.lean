import FGVerif.Driver.Shared
import FGVerif.Model.C11
/-!
  driver operations for C11

    (C11 rc <I> [<flat>])                         reaction centre
    (C11 unreachable <g> (<start> …) <r> [(<id> …)])   set of unreachable ids (sorted)
    (C11 unreachable_spec <g> (<start> …) <r> [(<id> …)])   large inputs: BFS specification on the implementation output only
    (C11 prune <I> <r> <insertH 0|1> [<flat>])    pruned graph
    (C11 prune_spec <I> <r> <insertH 0|1> [<flat>])   large inputs: declarative pruned-graph specification on the implementation output only

  `<flat>` = `((node …) ((a b label) …))`: nodes sorted by id (node form of `Graph`), edges as
  sorted `(min max label)` — the order-insensitive view of a simple graph.
  Reply: `(ok <model output> <spec_model> <spec_impl> <wellformed input 0|1> [<corr 0|1|_>])`.
  For `prune` the correspondence is decided here (`corr`): model and implementation must agree
  up to a renaming of the freshly inserted hydrogen ids (the property does not fix which fresh id
  goes to which cut bond).
-/
namespace C11
open SExp

abbrev FlatEdge := Int × Int × Label
abbrev Flat := List (Int × NodeAttr) × List FlatEdge

def sortNodes (l : List (Int × NodeAttr)) : List (Int × NodeAttr) :=
  l.mergeSort fun a b => decide (a.1 ≤ b.1)

def sortEdges (l : List FlatEdge) : List FlatEdge :=
  l.mergeSort fun a b => a.1 < b.1 || (a.1 == b.1 && decide (a.2.1 ≤ b.2.1))

def flatten (g : Graph) : Flat :=
  (sortNodes g.nodes, sortEdges (g.edges.map fun e => (min e.1 e.2.1, max e.1 e.2.1, e.2.2.2)))

/-- rebuild a simple graph from the flat view (adjacency rows in edge-list order) -/
def unflatten (f : Flat) : Graph :=
  { multi := false
    nodes := f.1
    adj := f.1.map fun n => (n.1, f.2.filterMap fun e =>
      if e.1 == n.1 then some (e.2.1, [(0, e.2.2)])
      else if e.2.1 == n.1 then some (e.1, [(0, e.2.2)]) else none) }

def asFlatEdge : SExp → Option FlatEdge
  | .list [a, b, l] => do pure (← asInt a, ← asInt b, ← asLabel l)
  | _ => none

def asFlat : SExp → Option Flat := asPair (asList asNode) (asList asFlatEdge)

def ofFlat (f : Flat) : SExp :=
  .list [ofList ofNode f.1, ofList (fun (e : FlatEdge) => .list [ofInt e.1, ofInt e.2.1, ofLabel e.2.2]) f.2]

def isRaised : SExp → Bool
  | .list [.atom "raised", _] => true
  | _ => false

/-- rename the nodes that are not nodes of `its` to `fresh, fresh+1, …` in the order of
    (anchor, id): canonical form modulo the choice of fresh ids -/
def canonFresh (its : Graph) (f : Flat) : Flat :=
  let g := unflatten f
  let news := (f.1.map (·.1)).filter fun h => !its.nodeIds.contains h
  let keyed := news.map fun h => ((g.neighbors h).headD 0, h)
  let sorted := keyed.mergeSort fun a b => a.1 < b.1 || (a.1 == b.1 && decide (a.2 ≤ b.2))
  let order := sorted.map (·.2)
  let base := freshId its
  let ren := fun (x : Int) => if news.contains x then base + Int.ofNat (order.idxOf x) else x
  (sortNodes (f.1.map fun n => (ren n.1, n.2)),
   sortEdges (f.2.map fun e => (min (ren e.1) (ren e.2.1), max (ren e.1) (ren e.2.1), e.2.2)))

def flatBeq (a b : Flat) : Bool := toString (ofFlat a) == toString (ofFlat b)

def handle : List SExp → Option SExp
  | .atom "rc" :: its :: rest => do
      let its ← asGraph its
      let model := getRc its
      let specModel := specRc its model
      let specImpl ← match rest with
        | [impl] =>
            if isRaised impl then pure (ofBool false) else do
              let f ← asFlat impl
              pure (ofBool (specRc its (unflatten f)))
        | _ => pure none'
      pure (.list [.atom "ok", ofFlat (flatten model), ofBool specModel, specImpl,
                   ofBool (wellFormed its && simple its)])
  | .atom "unreachable" :: g :: starts :: r :: rest => do
      let g ← asGraph g
      let starts ← asList asInt starts
      let r ← asNat r
      if g.nodes.isEmpty then
        -- networkx refuses to build the adjacency matrix of an empty graph (out of domain)
        pure (.list [.atom "ok", .list [.atom "raised", .atom "Other"], ofBool true, none', ofBool (wellFormed g)])
      else if starts.any (fun s => !g.nodeIds.contains s) then
        -- `node_index[n]` raises (out of domain: start nodes must be nodes)
        pure (.list [.atom "ok", .list [.atom "raised", .atom "KeyError"], ofBool true, none', ofBool (wellFormed g)])
      else
        let model := getUnreachableClamped g starts r   -- the code's loop (5e2d069); = getUnreachable: C11.getUnreachableClamped_eq
        let specModel := specUnreachable g starts r model
        let specImpl ← match rest with
          | [impl] =>
              if isRaised impl then pure (ofBool false) else do
                let out ← asList asInt impl
                pure (ofBool (specUnreachable g starts r out))
          | _ => pure none'
        pure (.list [.atom "ok", ofList ofInt model, ofBool specModel, specImpl, ofBool (wellFormed g)])
  -- LARGE inputs (long chains / rings at radii where the int64 walk counts of the implementation wrap around): only
  -- the independent breadth-first specification `specUnreachable` (proved sound and complete for "not within r steps of
  -- a start node": C11.specUnreachable_sound, Reach.within_iff_distLe) is applied to the implementation's output; the
  -- matrix model is not evaluated (no model output, the harness sends these cases with compare_model = False)
  | .atom "unreachable_spec" :: g :: starts :: r :: rest => do
      let g ← asGraph g
      let starts ← asList asInt starts
      let r ← asNat r
      let inDom := !g.nodes.isEmpty && starts.all (fun s => g.nodeIds.contains s)
      let specImpl ← match rest with
        | [impl] =>
            if isRaised impl then pure (ofBool (!inDom)) else do
              let out ← asList asInt impl
              pure (ofBool (specUnreachable g starts r out))
        | _ => pure none'
      pure (.list [.atom "ok", none', ofBool true, specImpl, ofBool (wellFormed g), ofBool inDom])
  -- LARGE ITS graphs: only the declarative description of the pruned graph `specPrune` (kept atoms = breadth-first
  -- "within r steps of an end atom of a changed bond"; proved sound: C11.specPrune_sound_checked) is applied to the
  -- implementation's output; the matrix model `pruneItsToRc` is not evaluated (no model output, no correspondence)
  | .atom "prune_spec" :: its :: r :: ins :: rest => do
      let its ← asGraph its
      let r ← asNat r
      let ins ← asBool ins
      let inDom := !its.nodes.isEmpty
      let specImpl ← match rest with
        | [impl] =>
            if isRaised impl then pure (ofBool (!inDom)) else do
              let f ← asFlat impl
              pure (ofBool (specPrune its r ins (unflatten f)))
        | _ => pure none'
      pure (.list [.atom "ok", none', ofBool true, specImpl, ofBool (wellFormed its && simple its), none', ofBool inDom])
  | .atom "prune" :: its :: r :: ins :: rest => do
      let its ← asGraph its
      let r ← asNat r
      let ins ← asBool ins
      if its.nodes.isEmpty then
        pure (.list [.atom "ok", .list [.atom "raised", .atom "Other"], ofBool true, none', ofBool true, none'])
      else
        let model := pruneItsToRcClamped its r ins   -- = pruneItsToRc: C11.pruneItsToRcClamped_eq
        let specModel := specPrune its r ins model
        let fm := flatten model
        let (specImpl, corr) ← match rest with
          | [impl] =>
              if isRaised impl then pure (ofBool false, ofBool false) else do
                let f ← asFlat impl
                pure (ofBool (specPrune its r ins (unflatten f)),
                      ofBool (flatBeq (canonFresh its fm) (canonFresh its f)))
          | _ => pure (none', none')
        pure (.list [.atom "ok", ofFlat fm, ofBool specModel, specImpl,
                     ofBool (wellFormed its && simple its), corr])
  | _ => none

end C11
