import FGVerif.Driver.Shared
/-! driver operations for C11 (stub: replaced by the property's own driver) -/
namespace C11
def handle : List SExp → Option SExp := fun _ => none
end C11
