import FGVerif.Driver.Shared
import FGVerif.Model.C13
/-! driver operations for C13 -/
namespace C13
open SExp

/-- (test) the model's label lists, in key order, are the specified ones for arbitrary parent ids
    (`C13.replace_labels_ids`) -/
def exactIds (g : Graph) (x : Int) (sub : Graph) (anchors : List Nat) (model : Graph) : Bool :=
  let n1 : Int := (g.nodes.length : Int) - 1
  ((surv g x).all fun u => (surv g x).all fun v =>
    labelsBetween model (renIds g x u) (renIds g x v) == labelsBetween g u v) &&
  (sub.nodeIds.all fun i => sub.nodeIds.all fun j =>
    labelsBetween model (i + n1) (j + n1) == labelsBetween sub i j) &&
  ((surv g x).all fun u => sub.nodeIds.all fun j =>
    labelsBetween model (renIds g x u) (j + n1) == crossLabels g x anchors u j &&
    labelsBetween model (j + n1) (renIds g x u) == crossLabels g x anchors u j)

/-- the specification the verdict is decided with: `specCheckIds` (arbitrary parent ids, `C13.specCheckIds_sound`)
    and, where the parent's ids are `0..n-1`, also the original `specCheck` (`C13.specCheck_sound_any`) -/
def specOf (g : Graph) (x : Int) (sub : Graph) (anchors : List Nat) (out : Graph) : Bool :=
  specCheckIds g x sub anchors out && (!inDomainAny g x sub anchors || specCheck g x sub anchors out)

/-- `(replace <g> <node> <sub parsed at offset 0> (<anchor> …) [<impl graph> | (raised K)])`
      → `(ok <model result, exact wire form> <spec_model> <spec_impl> <inDomain> <incident order = incSpec>
           <labels in spec order> <inDomainAny> <inDomainIds> <nextId g>)`
    `(relabel <g> <offset> [<impl graph>])`
      → `(ok <model result> <spec_model> <spec_impl>)` -/
def handle : List SExp → Option SExp
  | .atom "replace" :: g :: node :: sub :: anchors :: rest => do
      let g ← asGraph g
      let node ← asInt node
      let sub ← asGraph sub
      let anchors ← asList asNat anchors
      let model := replaceNode g node sub anchors
      let specModel := specOf g node sub anchors model
      let specImpl ← match rest with
        | [.list [.atom "raised", _]] => pure (ofBool false)
        | [impl] => do
            let out ← asGraph impl
            pure (ofBool (specOf g node sub anchors out))
        | _ => pure none'
      -- the incident-edge order after the composition step, model of compose vs declarative order
      let c := compose g (shiftGraph sub (nextId g))
      let incOk := (c.edgesOf node).map (fun e => (e.2.1, e.2.2.2)) == incSpec g node
      -- (test) the model meets the spec with the labels in the very order of the specification
      let anyDom := inDomainAny g node sub anchors
      let exactOk := exactIds g node sub anchors model &&
        (!anyDom || model.nodeIds.all fun a => model.nodeIds.all fun b =>
          labelsBetween model a b == specLabels g node sub anchors a b)
      pure (.list [.atom "ok", ofGraph model, ofBool specModel, specImpl,
                   ofBool (inDomain g node sub anchors), ofBool incOk, ofBool exactOk,
                   ofBool anyDom, ofBool (inDomainIds g node sub anchors), .atom (toString (nextId g))])
  | .atom "relabel" :: g :: off :: rest => do
      let g ← asGraph g
      let off ← asInt off
      let model := relabelGraph g off
      let specImpl ← match rest with
        | [.list [.atom "raised", _]] => pure (ofBool false)
        | [impl] => do
            let out ← asGraph impl
            pure (ofBool (relabelSpecCheck g off out))
        | _ => pure none'
      pure (.list [.atom "ok", ofGraph model, ofBool (relabelSpecCheck g off model), specImpl])
  | _ => none

end C13
