import FGVerif.Driver.Shared
import FGVerif.Model.C13
/-! driver operations for C13 -/
namespace C13
open SExp

/-- `(replace <g> <node> <sub parsed at offset 0> (<anchor> …) [<impl graph> | (raised K)])`
      → `(ok <model result, exact wire form> <spec_model> <spec_impl> <inDomain> <incident order = incSpec>
           <labels in spec order> <inDomainAny>)`
    `(relabel <g> <offset> [<impl graph>])`
      → `(ok <model result> <spec_model> <spec_impl>)` -/
def handle : List SExp → Option SExp
  | .atom "replace" :: g :: node :: sub :: anchors :: rest => do
      let g ← asGraph g
      let node ← asInt node
      let sub ← asGraph sub
      let anchors ← asList asNat anchors
      let model := replaceNode g node sub anchors
      let specModel := specCheck g node sub anchors model
      let specImpl ← match rest with
        | [.list [.atom "raised", _]] => pure (ofBool false)
        | [impl] => do
            let out ← asGraph impl
            pure (ofBool (specCheck g node sub anchors out))
        | _ => pure none'
      -- the incident-edge order after the composition step, model of compose vs declarative order
      let c := compose g (shiftGraph sub g.nodes.length)
      let incOk := (c.edgesOf node).map (fun e => (e.2.1, e.2.2.2)) == incSpec g node
      -- (test) the model meets the spec with the labels in the very order of `specLabels`
      let exactOk := model.nodeIds.all fun a => model.nodeIds.all fun b =>
        labelsBetween model a b == specLabels g node sub anchors a b
      pure (.list [.atom "ok", ofGraph model, ofBool specModel, specImpl,
                   ofBool (inDomain g node sub anchors), ofBool incOk, ofBool exactOk,
                   ofBool (inDomainAny g node sub anchors)])
  | .atom "relabel" :: g :: off :: rest => do
      let g ← asGraph g
      let off ← asInt off
      let model := relabelGraph g off
      let specImpl ← match rest with
        | [.list [.atom "raised", _]] => pure (ofBool false)
        | [impl] => do
            let out ← asGraph impl
            pure (ofBool (relabelSpecCheck g off out))
        | _ => pure none'
      pure (.list [.atom "ok", ofGraph model, ofBool (relabelSpecCheck g off model), specImpl])
  | _ => none

end C13
