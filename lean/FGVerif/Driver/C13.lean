import FGVerif.Driver.Shared
/-! driver operations for C13 (stub: replaced by the property's own driver) -/
namespace C13
def handle : List SExp → Option SExp := fun _ => none
end C13
