import FGVerif.Driver.Shared
/-! driver operations for C01 (stub: replaced by the property's own driver) -/
namespace C01
def handle : List SExp → Option SExp := fun _ => none
end C01
