import FGVerif.Driver.Shared
import FGVerif.Model.C01Spec
import FGVerif.Model.C01Ref
/-!
  driver operations for C01 (shared decoders/encoders are reused by C02)

  The executable specification applied to implementation outputs (`spec_impl`) and the domain flag
  are the ones over the HAND-WRITTEN reference tables (`denoteEdgesRef`, `WFRef`, Model/C01Ref.lean):
  they do not move when the tables of the source under test move.  The flags computed over the
  regenerated tables (`WF`) are sent along so that the harness can see a drift.

  chain   := (<atomtok> <item>*)
  atomtok := (e <str>) | w | (l <str>*)
  item    := (r <bond|_> <str>) | (b <bond|_> <chain>) | (n <bond|_> <chain>)      -- `n` is last
  bond    := (s <one-char str>) | (c <str> <str>)
-/
namespace C01
open SExp

def asChars (x : SExp) : Option Str := (asStr x).map String.toList

def decBond : SExp → Option (Option Bond)
  | .atom "_" => some none
  | .list [.atom "s", s] => do
      match ← asChars s with
      | [c] => pure (some (.sym c))
      | _ => none
  | .list [.atom "c", g, h] => do pure (some (.rc (← asChars g) (← asChars h)))
  | _ => none

def decAtom : SExp → Option AtomTok
  | .atom "w" => some .wild
  | .list [.atom "e", s] => (asChars s).map .elem
  | .list (.atom "l" :: ls) => (ls.mapM asChars).map .labels
  | _ => none

mutual
  def decChain : Nat → SExp → Option Chain
    | fuel + 1, .list (a :: items) => do pure (.mk (← decAtom a) (← decItems fuel items))
    | _, _ => none
  def decItems : Nat → List SExp → Option Items
    | _, [] => some .nil
    | fuel + 1, .list [.atom "r", b, id] :: rest => do
        pure (.ring (← decBond b) (← asChars id) (← decItems fuel rest))
    | fuel + 1, .list [.atom "b", b, c] :: rest => do
        pure (.branch (← decBond b) (← decChain fuel c) (← decItems fuel rest))
    | fuel + 1, [.list [.atom "n", b, c]] => do
        pure (.next (← decBond b) (← decChain fuel c))
    | _, _ => none
end

def asChain (x : SExp) : Option Chain := decChain 100000 x

def ofErr : PErr → SExp
  | .syntaxError => .list [.atom "raised", .atom "SyntaxError"]
  | .keyError => .list [.atom "raised", .atom "KeyError"]
  | .indexError => .list [.atom "raised", .atom "IndexError"]

def ofChars (s : Str) : SExp := ofStr (String.ofList s)

def ofToken : Token → SExp
  | .atom s => .list [.atom "ATOM", ofChars s]
  | .bond s => .list [.atom "BOND", ofChars s]
  | .bstart => .list [.atom "BRANCH_START", ofChars ['(']]
  | .bend => .list [.atom "BRANCH_END", ofChars [')']]
  | .ring d => .list [.atom "RING_NUM", ofChars d]
  | .wild => .list [.atom "WILDCARD", ofChars ['R']]
  | t@(.rc _ _) => .list [.atom "RC_BOND", ofChars t.chars]
  | t@(.label _) => .list [.atom "NODE_LABEL", ofChars t.chars]
  | .mismatch c => .list [.atom "MISMATCH", ofChars [c]]

/-! canonical (order-insensitive) view of a graph: nodes sorted by id, edges as sorted
    `(min max label)` without keys -/

def labelKey : Label → List Int
  | .s o => [0, o, 0]
  | .p g h => [1, g, h]
  | .nil => [2, 0, 0]

def lexLe : List Int → List Int → Bool
  | [], _ => true
  | _ :: _, [] => false
  | a :: as, b :: bs => a < b || (a == b && lexLe as bs)

def insertBy {α} (key : α → List Int) (x : α) : List α → List α
  | [] => [x]
  | y :: ys => if lexLe (key x) (key y) then x :: y :: ys else y :: insertBy key x ys

def sortBy {α} (key : α → List Int) (l : List α) : List α := l.foldr (insertBy key) []

def edgeSortKey (e : Int × Int × Label) : List Int := e.1 :: e.2.1 :: labelKey e.2.2

def normEdge (e : Int × Int × Label) : Int × Int × Label := (min e.1 e.2.1, max e.1 e.2.1, e.2.2)

def canonOf (multi : Bool) (nodes : List (Int × NodeAttr)) (edges : List (Int × Int × Label)) : SExp :=
  .list [ofBool multi,
         ofList ofNode (sortBy (fun n => [n.1]) nodes),
         ofList (fun (e : Int × Int × Label) => .list [ofInt e.1, ofInt e.2.1, ofLabel e.2.2])
           (sortBy edgeSortKey (edges.map normEdge))]

def canonGraph (g : Graph) : SExp :=
  canonOf g.multi g.nodes (g.edges.map fun e => (e.1, e.2.1, e.2.2.2))

def graphEq (a b : Graph) : Bool := ofGraph a == ofGraph b

def asImplGraph : SExp → Option (Option Graph)
  | .list [.atom "raised", _] => some none
  | x => (asGraph x).map some

def handle : List SExp → Option SExp
  -- (lex <str> <chain|_> <impl tokens>)
  | [.atom "lex", s, c, impl] => do
      let s ← asStr s
      let c ← asOpt asChain c
      let toks := ofList ofToken (lex s.toList)
      let want := c.map fun c => ofList ofToken c.render
      let specModel := match want with | some w => toks == w | none => true
      let specImpl := match want with | some w => ofBool (impl == w) | none => none'
      pure (.list [.atom "ok", toks, ofBool specModel, specImpl])
  -- (wf <multi> <chain>) → (ok <WFRef> <WFcoreRef> <str> <WF over generated tables> <WFcore over generated tables>)
  | [.atom "wf", m, c] => do
      let m ← asBool m
      let c ← asChain c
      pure (.list [.atom "ok", ofBool (WFRef m c), ofBool (WFcoreRef c), ofStr (renderStr c),
                   ofBool (WF m c), ofBool (WFcore c)])
  -- (check <multi> <aam> <off> <chain> <str> <impl exact graph|raised> <impl canon|raised>)
  --   → (ok <model canon> <spec_model> <spec_impl> <impl exact = model exact> <model = denoteRef>
  --         <WFRef> <WF over generated tables> <canon of denoteRef>)
  | [.atom "check", m, a, off, c, s, exact, impl] => do
      let m ← asBool m
      let a ← asBool a
      let off ← asInt off
      let c ← asChain c
      let s ← asStr s
      let exact ← asImplGraph exact
      if renderStr c != s then none
      let want := canonOf m (denoteNodes c off a) (denoteEdgesRef c off)
      let d := denoteRef c off a m
      let tail := [ofBool (WFRef m c), ofBool (WF m c), want]
      match parse ⟨m, a⟩ s off with
      | .ok g =>
        let exactEq := match exact with | some e => ofBool (graphEq g e) | none => none'
        pure (.list ([.atom "ok", canonGraph g, ofBool (canonGraph g == want), ofBool (impl == want),
                      exactEq, ofBool (graphEq g d)] ++ tail))
      | .error e =>
        pure (.list ([.atom "ok", ofErr e, ofBool false, ofBool (impl == want), none', ofBool false] ++ tail))
  -- (parse <multi> <aam> <off> <str> <impl canon|raised>)
  | [.atom "parse", m, a, off, s, _impl] => do
      let m ← asBool m
      let a ← asBool a
      let off ← asInt off
      let s ← asStr s
      match parse ⟨m, a⟩ s off with
      | .ok g => pure (.list [.atom "ok", canonGraph g, ofBool true, none'])
      | .error e => pure (.list [.atom "ok", ofErr e, ofBool true, none'])
  -- (parsex <multi> <aam> <off> <str>)  exact model graph (for other builders / debugging)
  | [.atom "parsex", m, a, off, s] => do
      let m ← asBool m
      let a ← asBool a
      let off ← asInt off
      let s ← asStr s
      match parse ⟨m, a⟩ s off with
      | .ok g => pure (.list [.atom "ok", ofGraph g, ofBool true, none'])
      | .error e => pure (.list [.atom "ok", ofErr e, ofBool true, none'])
  | _ => none

end C01
