import FGVerif.Driver.Shared
import FGVerif.Model.Subgraph
import FGVerif.Model.C03Spec
/-!
  driver operations for C03 / C04 (one implementation, `C04.handle` calls `handleFor .c04`).

  `(anchored <mapper> <host> <a> <pattern> <pa> [impl])`
      impl := (flag ((h p) …) (vis …) (pvis …)) | (raised Kind)
      reply  (ok (flag pairs-if-flag-and-C04) <spec_model> <spec_impl>
                 (failed clause…) (model_failed clause…) (host_cycle b) (pattern_cycle b)
                 (exists b) (vis_agree b|_) (wf b))
  `(unanchored <mapper> <host> <pattern> [impl flag | (raised Kind)])`
      reply  (ok flag <spec_model> <spec_impl> (failed …) (model_failed …) (host_cycle b)
                 (pattern_cycle b) (exists b) (vis_agree _) (wf b))

  clauses:  c03_missed                  an embedding exists (oracle) but the flag is false
            c04_not_embedding           flag true, returned pairs are not an embedding of the
                                        anchor's component containing the anchor pair
                                        (un-anchored: flag true although no anchor pair embeds)
            c04_false_negative_acyclic  host and pattern acyclic, flag false, embedding exists
            c04_pair_not_admitted       flag true, anchor pair missing or a returned pair whose symbols
                                        the mapper does not admit (judged for every mapper; with
                                        can_map_to_nothing it is the only C04 clause judged)
            raised                      the implementation raised
  `spec_*` is the conjunction of the clauses that belong to the property asked:
  C03: c03_missed, raised;  C04: c04_not_embedding, c04_false_negative_acyclic, raised.
-/
namespace C03
open SExp Perm Sub

inductive Which where
  | c03
  | c04
deriving DecidableEq

structure Clauses where
  missed : Bool := false
  notEmbedding : Bool := false
  falseNegAcyclic : Bool := false
  raised : Bool := false
  /-- flag true, but the anchor pair is missing or some returned pair is not admitted by the
      mapper's single-symbol rule (evaluated for every mapper, also with can_map_to_nothing) -/
  pairNotAdmitted : Bool := false
  /-- the mapper has can_map_to_nothing symbols: pattern nodes may stay unmapped by design, so only
      `pairNotAdmitted` and `raised` are judged -/
  cmtn : Bool := false

def Clauses.names (c : Clauses) : List SExp :=
  (if c.missed then [SExp.atom "c03_missed"] else []) ++
  (if c.notEmbedding then [SExp.atom "c04_not_embedding"] else []) ++
  (if c.falseNegAcyclic then [SExp.atom "c04_false_negative_acyclic"] else []) ++
  (if c.raised then [SExp.atom "raised"] else []) ++
  (if c.pairNotAdmitted then [SExp.atom "c04_pair_not_admitted"] else [])

def Clauses.holds (c : Clauses) : Which → Bool
  | .c03 => !c.missed && !c.raised
  | .c04 => if c.cmtn then !c.pairNotAdmitted && !c.raised
            else !c.notEmbedding && !c.falseNegAcyclic && !c.raised && !c.pairNotAdmitted

/-- the three clauses for an anchored answer -/
def judgeAnchored (m : Mapper) (g : Graph) (a : Int) (p : Graph) (pa : Int) (ex acyclic : Bool)
    (flag : Bool) (pairs : List (Int × Int)) : Clauses :=
  { missed := ex && !flag
    notEmbedding := flag && !isEmbedding m p g pa a pairs
    falseNegAcyclic := acyclic && !flag && ex
    pairNotAdmitted := flag && !(pairs.contains (a, pa) &&
      pairs.all fun x => admits m ((p.symbol? x.2).getD "") ((g.symbol? x.1).getD ""))
    cmtn := !m.canMapToNothing.isEmpty }

def judgeUnanchored (ex acyclic : Bool) (flag : Bool) : Clauses :=
  { missed := ex && !flag
    notEmbedding := flag && !ex
    falseNegAcyclic := acyclic && !flag && ex }

def kv (k : String) (v : SExp) : SExp := .list [.atom k, v]

def isRaised : SExp → Bool
  | .list (.atom "raised" :: _) => true
  | _ => false

def asPairs : SExp → Option (List (Int × Int)) := asList (asPair asInt asInt)

def handleFor (w : Which) : List SExp → Option SExp
  | .atom "anchored" :: m :: g :: a :: p :: pa :: rest => do
      let m ← asMapper m
      let g ← asGraph g
      let p ← asGraph p
      let a ← asInt a
      let pa ← asInt pa
      let r := mapAnchored g a p pa m
      let ex := existsEmbedding m p g pa a
      let hostCyc := !isForestB g
      let patCyc := !isForestB p
      let acyclic := !hostCyc && !patCyc
      let cm := judgeAnchored m g a p pa ex acyclic r.ok r.mapping
      -- C03 observes the flag only; C04 the flag and, on success, the pair set
      let modelOut := SExp.list [ofBool r.ok, ofPairs (if r.ok && w == .c04 then sortPairs r.mapping else [])]
      let (ci, visAgree) ← match rest with
        | [impl] =>
            if isRaised impl then pure (some ({ raised := true } : Clauses), none')
            else match impl with
              | .list [f, prs, vis, pvis] => do
                  let f ← asBool f
                  let prs ← asPairs prs
                  let vis ← asList asInt vis
                  let pvis ← asList asInt pvis
                  pure (some (judgeAnchored m g a p pa ex acyclic f prs),
                        ofBool (sortInts vis == sortInts r.vis && sortInts pvis == sortInts r.pvis))
              | _ => none
        | _ => pure (none, none')
      pure (.list [.atom "ok", modelOut, ofBool (cm.holds w),
        (match ci with | some c => ofBool (c.holds w) | none => none'),
        kv "failed" (.list (match ci with | some c => c.names | none => [])),
        kv "model_failed" (.list cm.names),
        kv "host_cycle" (ofBool hostCyc), kv "pattern_cycle" (ofBool patCyc),
        kv "exists" (ofBool ex), kv "vis_agree" visAgree,
        kv "wf" (ofBool (wfB g && wfB p))])
  | .atom "unanchored" :: m :: g :: p :: rest => do
      let m ← asMapper m
      let g ← asGraph g
      let p ← asGraph p
      let flag := mapSubgraphToGraph g p m
      let ex := existsEmbeddingAny m p g
      let hostCyc := !isForestB g
      let patCyc := !isForestB p
      let acyclic := !hostCyc && !patCyc
      let cm := judgeUnanchored ex acyclic flag
      let ci ← match rest with
        | [impl] =>
            if isRaised impl then pure (some ({ raised := true } : Clauses))
            else do
              let f ← asBool impl
              pure (some (judgeUnanchored ex acyclic f))
        | _ => pure none
      pure (.list [.atom "ok", ofBool flag, ofBool (cm.holds w),
        (match ci with | some c => ofBool (c.holds w) | none => none'),
        kv "failed" (.list (match ci with | some c => c.names | none => [])),
        kv "model_failed" (.list cm.names),
        kv "host_cycle" (ofBool hostCyc), kv "pattern_cycle" (ofBool patCyc),
        kv "exists" (ofBool ex), kv "vis_agree" none',
        kv "wf" (ofBool (wfB g && wfB p))])
  /- `(embeds <mapper> <host> <a> <pattern> <pa>)`: the oracle alone (cross-checked against
     networkx's monomorphism enumeration by the harness) -/
  | .atom "embeds" :: m :: g :: a :: p :: pa :: _ => do
      let m ← asMapper m
      let g ← asGraph g
      let p ← asGraph p
      let a ← asInt a
      let pa ← asInt pa
      pure (.list [.atom "ok", ofBool (existsEmbedding m p g pa a), ofBool true, none',
        kv "host_cycle" (ofBool (!isForestB g)), kv "pattern_cycle" (ofBool (!isForestB p))])
  | _ => none

def handle : List SExp → Option SExp := handleFor .c03

end C03
