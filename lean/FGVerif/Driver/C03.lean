import FGVerif.Driver.Shared
import FGVerif.Model.Subgraph
/-! driver operations for C03/C04 (base version) -/
namespace C03
open SExp Perm Sub

/-- `(anchored <mapper> <host> <a> <pattern> <pa> [impl])` → `(ok (ok? sorted-pairs sorted-vis sorted-pvis) 1 _)` -/
def handle : List SExp → Option SExp
  | .atom "anchored" :: m :: g :: a :: p :: pa :: _rest => do
      let m ← asMapper m
      let g ← asGraph g
      let p ← asGraph p
      let a ← asInt a
      let pa ← asInt pa
      let r := mapAnchored g a p pa m
      pure (.list [.atom "ok",
        .list [ofBool r.ok, ofPairs (sortPairs r.mapping), ofList ofInt (sortInts r.vis), ofList ofInt (sortInts r.pvis)],
        ofBool true, none'])
  | .atom "unanchored" :: m :: g :: p :: _rest => do
      let m ← asMapper m
      let g ← asGraph g
      let p ← asGraph p
      pure (.list [.atom "ok", ofBool (mapSubgraphToGraph g p m), ofBool true, none'])
  | _ => none

end C03
