import FGVerif.Driver.Shared
import FGVerif.Model.Subgraph
import FGVerif.Model.C03Spec
import FGVerif.Model.C04Opt
/-!
  driver operations for C03 / C04 (one implementation, `C04.handle` calls `handleFor .c04`).

  `(anchored <mapper> <host> <a> <pattern> <pa> [impl])`
      impl := (flag ((h p) …) (vis …) (pvis …)) | (raised Kind)
      reply  (ok (flag pairs-if-flag-and-C04) <spec_model> <spec_impl>
                 (failed clause…) (model_failed clause…) (host_cycle b) (pattern_cycle b)
                 (exists b) (vis_agree b|_) (wf b))
  `(mapsub <mapper> <host> <a> <pattern> <pa|_> [impl])` — the public entry point `map_subgraph(graph, anchor,
      subgraph, mapper, subgraph_anchor=<pa>)` (model: `Sub.mapAnchored` for an explicit pattern anchor, any id
      including 0; `Sub.mapSubgraph` without one)
      impl := ((flag ((h p) …)) …) | (raised Kind)      one entry per pattern anchor tried, in node order
      reply  (ok ((flag pairs-if-flag-and-C04) …) <spec_model> <spec_impl> (failed …) (model_failed …) …)
      every entry is judged by the clauses of `anchored` for ITS pattern anchor; `c04_result_shape`: the
      number of entries is not the promised one (exactly one with an explicit anchor, one per pattern node
      without) — then `c03_missed` is judged on "some entry reports success"
  `(unanchored <mapper> <host> <pattern> [impl flag | (raised Kind)])`
      reply  (ok flag <spec_model> <spec_impl> (failed …) (model_failed …) (host_cycle b)
                 (pattern_cycle b) (exists b) (vis_agree _) (wf b))

  clauses:  c03_missed                  an embedding exists (oracle) but the flag is false
            c04_not_embedding           flag true, returned pairs are not an embedding of the
                                        anchor's component containing the anchor pair
                                        (un-anchored: flag true although no anchor pair embeds)
            c04_false_negative_acyclic  host and pattern acyclic, flag false, embedding exists
            c04_pair_not_admitted       flag true, anchor pair missing or a returned pair whose symbols
                                        the mapper does not admit (judged for every mapper)
            with can_map_to_nothing ≠ [] (pattern nodes may stay without a partner by design):
            c04_not_embedding           flag true, the returned pairs are not a PARTIAL embedding
                                        (`C04Opt.partialOk`: anchor pair, existing nodes, admitted symbols,
                                        function to distinct host nodes, every pattern bond between two
                                        mapped nodes on a host bond of equal order)
            c04_required_node_unmapped  flag true, a pattern node whose symbol may NOT map to nothing has
                                        no partner (`C04Opt.requiredOk`; known finding K12)
            raised                      the implementation raised
  `spec_*` is the conjunction of the clauses that belong to the property asked:
  C03: c03_missed, raised;  C04: c04_not_embedding, c04_false_negative_acyclic, raised.
-/
namespace C03
open SExp Perm Sub

inductive Which where
  | c03
  | c04
deriving DecidableEq

structure Clauses where
  missed : Bool := false
  notEmbedding : Bool := false
  falseNegAcyclic : Bool := false
  raised : Bool := false
  /-- flag true, but the anchor pair is missing or some returned pair is not admitted by the
      mapper's single-symbol rule (evaluated for every mapper, also with can_map_to_nothing) -/
  pairNotAdmitted : Bool := false
  /-- the mapper has can_map_to_nothing symbols: pattern nodes may stay unmapped by design, so
      `notEmbedding` means "not a partial embedding" and `requiredUnmapped` is judged; the oracle clauses
      (`missed`, `falseNegAcyclic`) are not (the oracle does not know optional nodes) -/
  cmtn : Bool := false
  /-- `map_subgraph`: the result list has not the promised number of entries -/
  shape : Bool := false
  /-- can_map_to_nothing: flag true and a pattern node that is not optional has no partner -/
  requiredUnmapped : Bool := false

def Clauses.or (c d : Clauses) : Clauses :=
  { missed := c.missed || d.missed, notEmbedding := c.notEmbedding || d.notEmbedding,
    falseNegAcyclic := c.falseNegAcyclic || d.falseNegAcyclic, raised := c.raised || d.raised,
    pairNotAdmitted := c.pairNotAdmitted || d.pairNotAdmitted, cmtn := c.cmtn || d.cmtn,
    shape := c.shape || d.shape, requiredUnmapped := c.requiredUnmapped || d.requiredUnmapped }

def Clauses.names (c : Clauses) : List SExp :=
  (if c.missed then [SExp.atom "c03_missed"] else []) ++
  (if c.notEmbedding then [SExp.atom "c04_not_embedding"] else []) ++
  (if c.falseNegAcyclic then [SExp.atom "c04_false_negative_acyclic"] else []) ++
  (if c.raised then [SExp.atom "raised"] else []) ++
  (if c.pairNotAdmitted then [SExp.atom "c04_pair_not_admitted"] else []) ++
  (if c.shape then [SExp.atom "c04_result_shape"] else []) ++
  (if c.requiredUnmapped then [SExp.atom "c04_required_node_unmapped"] else [])

def Clauses.holds (c : Clauses) : Which → Bool
  | .c03 => !c.missed && !c.raised
  | .c04 => if c.cmtn then !c.pairNotAdmitted && !c.raised && !c.shape && !c.notEmbedding && !c.requiredUnmapped
            else !c.notEmbedding && !c.falseNegAcyclic && !c.raised && !c.pairNotAdmitted && !c.shape

/-- the three clauses for an anchored answer -/
def judgeAnchored (m : Mapper) (g : Graph) (a : Int) (p : Graph) (pa : Int) (ex acyclic : Bool)
    (flag : Bool) (pairs : List (Int × Int)) : Clauses :=
  let cmtn := !m.canMapToNothing.isEmpty
  { missed := ex && !flag
    notEmbedding := flag && !(if cmtn then C04Opt.partialOk m p g pa a pairs else isEmbedding m p g pa a pairs)
    requiredUnmapped := cmtn && flag && !C04Opt.requiredOk m p pairs
    falseNegAcyclic := acyclic && !flag && ex
    pairNotAdmitted := flag && !(pairs.contains (a, pa) &&
      pairs.all fun x => admits m ((p.symbol? x.2).getD "") ((g.symbol? x.1).getD ""))
    cmtn := !m.canMapToNothing.isEmpty }

def judgeUnanchored (ex acyclic : Bool) (flag : Bool) : Clauses :=
  { missed := ex && !flag
    notEmbedding := flag && !ex
    falseNegAcyclic := acyclic && !flag && ex }

/-- the clauses for an answer of `map_subgraph`: `anchors` = the pattern anchors the promised entries speak
    about (with their oracle verdicts), `res` = the entries -/
def judgeMapSub (m : Mapper) (g : Graph) (a : Int) (p : Graph) (anchors : List (Int × Bool)) (want : Nat)
    (acyclic : Bool) (res : List (Bool × List (Int × Int))) : Clauses :=
  let cm : Clauses := { cmtn := !m.canMapToNothing.isEmpty }
  if res.length != want then
    { cm with shape := true, missed := anchors.any (·.2) && !res.any (·.1) }
  else
    (anchors.zip res).foldl (fun acc x => acc.or (judgeAnchored m g a p x.1.1 x.1.2 acyclic x.2.1 x.2.2)) cm

def kv (k : String) (v : SExp) : SExp := .list [.atom k, v]

def isRaised : SExp → Bool
  | .list (.atom "raised" :: _) => true
  | _ => false

def asPairs : SExp → Option (List (Int × Int)) := asList (asPair asInt asInt)

def handleFor (w : Which) : List SExp → Option SExp
  | .atom "anchored" :: m :: g :: a :: p :: pa :: rest => do
      let m ← asMapper m
      let g ← asGraph g
      let p ← asGraph p
      let a ← asInt a
      let pa ← asInt pa
      let r := mapAnchored g a p pa m
      let ex := existsEmbedding m p g pa a
      let hostCyc := !isForestB g
      let patCyc := !isForestB p
      let acyclic := !hostCyc && !patCyc
      let cm := judgeAnchored m g a p pa ex acyclic r.ok r.mapping
      -- C03 observes the flag only; C04 the flag and, on success, the pair set
      let modelOut := SExp.list [ofBool r.ok, ofPairs (if r.ok && w == .c04 then sortPairs r.mapping else [])]
      let (ci, visAgree) ← match rest with
        | [impl] =>
            if isRaised impl then pure (some ({ raised := true } : Clauses), none')
            else match impl with
              | .list [f, prs, vis, pvis] => do
                  let f ← asBool f
                  let prs ← asPairs prs
                  let vis ← asList asInt vis
                  let pvis ← asList asInt pvis
                  pure (some (judgeAnchored m g a p pa ex acyclic f prs),
                        ofBool (sortInts vis == sortInts r.vis && sortInts pvis == sortInts r.pvis))
              | _ => none
        | _ => pure (none, none')
      pure (.list [.atom "ok", modelOut, ofBool (cm.holds w),
        (match ci with | some c => ofBool (c.holds w) | none => none'),
        kv "failed" (.list (match ci with | some c => c.names | none => [])),
        kv "model_failed" (.list cm.names),
        kv "host_cycle" (ofBool hostCyc), kv "pattern_cycle" (ofBool patCyc),
        kv "exists" (ofBool ex), kv "vis_agree" visAgree,
        kv "wf" (ofBool (wfB g && wfB p))])
  | .atom "mapsub" :: m :: g :: a :: p :: pa :: rest => do
      let m ← asMapper m
      let g ← asGraph g
      let p ← asGraph p
      let a ← asInt a
      let pa ← asOpt asInt pa
      let ids : List Int := match pa with | some x => [x] | none => p.nodeIds
      let anchors := ids.map fun x => (x, existsEmbedding m p g x a)
      let want : Nat := match pa with | some _ => 1 | none => if p.nodes.isEmpty then 1 else ids.length
      let model : List (Bool × List (Int × Int)) := match pa with
        | some x => let r := mapAnchored g a p x m; [(r.ok, r.mapping)]
        | none => mapSubgraph g a p m
      let hostCyc := !isForestB g
      let patCyc := !isForestB p
      let acyclic := !hostCyc && !patCyc
      let cm := judgeMapSub m g a p anchors want acyclic model
      let enc (l : List (Bool × List (Int × Int))) : SExp :=
        ofList (fun (e : Bool × List (Int × Int)) =>
          SExp.list [ofBool e.1, ofPairs (if e.1 && w == .c04 then sortPairs e.2 else [])]) l
      let ci ← match rest with
        | [impl] =>
            if isRaised impl then pure (some ({ raised := true } : Clauses))
            else do
              let res ← asList (asPair asBool asPairs) impl
              pure (some (judgeMapSub m g a p anchors want acyclic res))
        | _ => pure none
      pure (.list [.atom "ok", enc model, ofBool (cm.holds w),
        (match ci with | some c => ofBool (c.holds w) | none => none'),
        kv "failed" (.list (match ci with | some c => c.names | none => [])),
        kv "model_failed" (.list cm.names),
        kv "host_cycle" (ofBool hostCyc), kv "pattern_cycle" (ofBool patCyc),
        kv "exists" (ofBool (anchors.any (·.2))), kv "vis_agree" none',
        kv "wf" (ofBool (wfB g && wfB p))])
  | .atom "unanchored" :: m :: g :: p :: rest => do
      let m ← asMapper m
      let g ← asGraph g
      let p ← asGraph p
      let flag := mapSubgraphToGraph g p m
      let ex := existsEmbeddingAny m p g
      let hostCyc := !isForestB g
      let patCyc := !isForestB p
      let acyclic := !hostCyc && !patCyc
      let cm := judgeUnanchored ex acyclic flag
      let ci ← match rest with
        | [impl] =>
            if isRaised impl then pure (some ({ raised := true } : Clauses))
            else do
              let f ← asBool impl
              pure (some (judgeUnanchored ex acyclic f))
        | _ => pure none
      pure (.list [.atom "ok", ofBool flag, ofBool (cm.holds w),
        (match ci with | some c => ofBool (c.holds w) | none => none'),
        kv "failed" (.list (match ci with | some c => c.names | none => [])),
        kv "model_failed" (.list cm.names),
        kv "host_cycle" (ofBool hostCyc), kv "pattern_cycle" (ofBool patCyc),
        kv "exists" (ofBool ex), kv "vis_agree" none',
        kv "wf" (ofBool (wfB g && wfB p))])
  /- `(embeds <mapper> <host> <a> <pattern> <pa>)`: the oracle alone (cross-checked against
     networkx's monomorphism enumeration by the harness) -/
  | .atom "embeds" :: m :: g :: a :: p :: pa :: _ => do
      let m ← asMapper m
      let g ← asGraph g
      let p ← asGraph p
      let a ← asInt a
      let pa ← asInt pa
      pure (.list [.atom "ok", ofBool (existsEmbedding m p g pa a), ofBool true, none',
        kv "host_cycle" (ofBool (!isForestB g)), kv "pattern_cycle" (ofBool (!isForestB p))])
  | _ => none

def handle : List SExp → Option SExp := handleFor .c03

end C03
