import FGVerif.Driver.Shared
import FGVerif.Driver.C07
import FGVerif.Driver.C05
import FGVerif.Model.C06
import FGVerif.Model.C06Full
/-!
  driver operations for C06

  `(C06 tree <mapper> (<cfg> …) <env seed> [<impl>])`
      impl := (<tree> …)   -- the DISTINCT answers of the interpreter processes (one if deterministic)
      tree := ((<root idx> …) ((<child idx> …) …))   -- ORDERED: the roots list and the children list of
              every config, over the positions of the given list      | (raised <Kind>)
      reply `(ok (<model tree>) <spec_model> <spec_impl> <envIndependent> <orderContract>)`;
      spec_impl = all processes produced one and the same ordered tree (the property: determinism);
      model = the model's ordered tree (correspondence); orderContract (informative) = roots strictly
      ascending and every children list strictly descending in the model's sort key.
  `(C06 det <case id = molecule [| kind of query object]> <snapshot digest before> [<impl>])`
      impl := ((<hashseed> (<answer> …) (<snapshot digest> …)) …)  -- one entry per worker process that was asked this
              (kind of query object, molecule): answers of the long-lived object (twice) and, when asked, of a freshly
              built object; a worker whose SET-UP failed sends `((raised Setup…))` and the digest `setup-failed`
              (which never equals the digest before the call, so such a case fails)
      reply `(ok _ 1 <spec_impl> <number of distinct answers> <allSame> <untouched>)`; spec: all answers of all
      processes (pure = only this kind of object was ever built there; mixed = objects of other kinds were built and
      used before) are identical and every snapshot digest equals the one taken before the call.
  `(C06 e2e <mapper> (<cfgin> …) <env seed> <mol graph> <requireH 0|1> [<impl>])`
      cfgin := (name patternStr <parsed pattern> (<group atom> …)|_ (<parsed anti-pattern> …) <depth>|_)
               -- the ARGUMENTS of `FGConfig.__init__` (anti-patterns in the order given)
      impl  := ((name (atom …)) …) | (raised <Kind>)     -- `FGQuery(mapper, config=[…], require_implicit_hydrogen).get(mol)`
      reply `(ok <model answer | (raised Assertion)> 1 _ <independent> <distinctStrings> <assertionFree>)`;
      model = the END-TO-END model `C06.fgQueryGetM` (tree builder + adapter + query), compared EXACTLY with
      the implementation's answer (correspondence); independent = the model's answer is the same under
      another set-iteration order and for the reversed list under a third one (what `C06.query_end_to_end` proves whenever
      the last two flags are 1).
-/
namespace C06
open SExp C07

def asCfgIn : SExp → Option FullConfig
  | .list [n, ps, g, ga, aps, depth] => do
      pure (FullConfig.ofParsed (← asStr n) (← asStr ps) (← asGraph g) (← asOpt (asList asInt) ga)
        (← asList asGraph aps) (← asOpt asInt depth))
  | _ => none

def ofView (pos : Nat → Nat) (v : View Nat) (n : Nat) : SExp :=
  -- children lists re-indexed by the positions of the given list
  let byInput := (List.range n).map fun inputIdx =>
    match (List.range v.items.length).find? (fun i => pos i == inputIdx) with
    | some i => (v.children.getD i []).map pos
    | none => []
  .list [ofList ofNat (v.roots.map pos), ofList (ofList ofNat) byInput]

def strictlySorted (lt : Nat → Nat → Bool) : List Nat → Bool
  | [] => true
  | [_] => true
  | a :: b :: rest => lt a b && strictlySorted lt (b :: rest)

def handle : List SExp → Option SExp
  | .atom "tree" :: m :: cfgs :: seed :: rest => do
      let m ← asMapper m
      let cfgs ← asList asCfg cfgs
      let seed ← asNat seed
      let t := mkTables m cfgs
      let input := List.range t.n
      let build := fun (s : Nat) => buildTreeE t.subE t.klt (Env.ofSeed s) input
      let enc := fun (o : Option (Tree Nat)) => match o with
        | some tr => ofView (fun i => (tr.items[i]?).getD 0) (view tr) t.n
        | none => raisedAssertion
      let model := build seed
      let envIndep := [0, 1, 2, 3, 5, 11].all fun s => (build s).map view == model.map view
      let orderOk := fun (roots : List Nat) (children : List (List Nat)) =>
        strictlySorted t.klt roots && children.all fun c => strictlySorted (fun a b => t.klt b a) c
      let specModel := match model with
        | some tr =>
            let pos := fun i => (tr.items[i]?).getD 0
            orderOk ((view tr).roots.map pos) ((view tr).children.map fun c => c.map pos)
        | none => false
      -- impl: the list of DISTINCT ordered trees the interpreter processes produced; the property
      -- (determinism) holds on this input iff there is exactly one and it is a tree
      let isTree := fun (x : SExp) => match x with
        | .list [.atom "raised", _] => false
        | .list [_, _] => true
        | _ => false
      let orderImpl := fun (x : SExp) => match x with
        | .list [rs, cs] => match asList asNat rs, asList (asList asNat) cs with
            | some rs, some cs => orderOk rs cs
            | _, _ => false
        | _ => false
      let (specImpl, orderContract) ← match rest with
        | [.list trees] => pure (ofBool (trees.length == 1 && trees.all isTree), ofBool (trees.all orderImpl))
        | [] => pure (none', none')
        | _ => none
      pure (.list [.atom "ok", .list [enc model], ofBool specModel, specImpl, ofBool envIndep, orderContract])
  | .atom "e2e" :: m :: cfgs :: seed :: g :: rh :: _ => do
      let m ← asMapper m
      let cfgs ← asList asCfgIn cfgs
      let seed ← asNat seed
      let g ← asGraph g
      let rh ← asBool rh
      let ans := fun (s : Nat) (l : List FullConfig) => fgQueryGetM m l (Env.ofSeed s) g rh
      let enc := fun (o : Option (List (String × List Int))) => match o with
        | some es => C05.ofEntries es
        | none => raisedAssertion
      let model := ans seed cfgs
      let indep := ans (if seed == 1 then 0 else 1) cfgs == model && ans (seed + 2) cfgs.reverse == model
      pure (.list [.atom "ok", enc model, ofBool true, none', ofBool indep, ofBool (distinctStringsFull cfgs),
                   ofBool (assertionFree m cfgs)])
  | [.atom "det", _, before, .list runs] => do
      let runs ← runs.mapM fun r => match r with
        | .list [_, .list answers, .list snaps] => some (answers, snaps)
        | _ => none
      let answers := runs.flatMap (·.1)
      let snaps := runs.flatMap (·.2)
      let first := answers.head?
      let allSame := answers.all fun a => some a == first
      let untouched := snaps.all fun s => s == before
      let distinct := answers.foldl (fun acc a => if acc.any (· == a) then acc else acc ++ [a]) ([] : List SExp)
      pure (.list [.atom "ok", none', ofBool true, ofBool (allSame && untouched && !answers.isEmpty),
                   ofNat distinct.length, ofBool allSame, ofBool untouched])
  | _ => none

end C06
