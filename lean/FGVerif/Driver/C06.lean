import FGVerif.Driver.Shared
/-! driver operations for C06 (stub: replaced by the property's own driver) -/
namespace C06
def handle : List SExp → Option SExp := fun _ => none
end C06
