import FGVerif.Driver.Shared
/-! driver operations for C15 (stub: replaced by the property's own driver) -/
namespace C15
def handle : List SExp → Option SExp := fun _ => none
end C15
