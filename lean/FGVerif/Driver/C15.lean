import FGVerif.Driver.C14
import FGVerif.Model.C15
import FGVerif.Model.C15General
import FGVerif.Model.C15Rc
/-! driver operations for C15 -/
namespace C15
open SExp C13 C14

/-- rebuild a simple `Graph` from a canonical form (adjacency in sorted-edge order; only used for
    order-insensitive checks) -/
def graphOfCanon (c : Canon) : Graph :=
  let r : Graph := { multi := false, nodes := c.nodes, adj := c.nodes.map fun n => (n.1, []) }
  c.edges.foldl (fun r e =>
    match e with
    | [u, v, t, a, b] => addEdgeKey r u v 0 (if t == 0 then .s a else if t == 1 then .p a b else .nil)
    | _ => r) r

def asSample : SExp → Option (Canon × Canon × Canon)
  | .list [x, g, h] => do pure (← asCanon x, ← asCanon g, ← asCanon h)
  | _ => none

/-- the property on one (implementation) sample: balanced, mapped; the two halves DIRECTLY against the
    model's split of the pattern's labels (`halvesB`: exactly the same bonded pairs with the same scalar,
    non-zero labels — the totalised `orderOf` / `getD` of the `get_its` models below cannot hide a tuple label
    or a missing label left on a half); superposition (small and general `get_its`) as additional clauses;
    for Diels-Alder samples also the reaction-centre shape: `daCentreOk` (shape and explicit-valence bound; the
    exhaustive test) AND `daCycleB x (findCycle x)`, the executable form of `C15.DAShape` — the statement of the
    theorem `C15.da_rc_shape_thm` (`C15.daCycleB_sound`), so that the implementation's samples are held to the very
    predicate the theorem proves of the model's -/
def sampleOk (da : Bool) (x g h : Graph) : Bool :=
  balancedMappedB x g h && halvesB x g h && superpositionB x (getIts g h) && superGeneralB x g h &&
  (!da || (daCentreOk x && daCycleB x (findCycle x)))

/-- the decidable hypotheses of `C15.superposition` / `balanced_mapped_of` / `halvesB_reaction` on a sample -/
def hypB (x : Graph) : Bool :=
  wf x && !x.multi && x.edges.all (fun e => match e.2.2.2 with
    | .s o => o != 0 | .p a b => !(a == 0 && b == 0) | .nil => false) &&
  closedB x && nodupB x.nodeIds && x.nodes.all (fun p => p.2.aam == some (p.1 + 1))

/-- does the pattern carry a forming bond `(0,k)` / a breaking bond `(k,0)`? (input distribution) -/
def hasForming (x : Graph) : Bool := x.edges.any fun e => match e.2.2.2 with | .p a b => a == 0 && b != 0 | _ => false
def hasBreaking (x : Graph) : Bool := x.edges.any fun e => match e.2.2.2 with | .p a b => a != 0 && b == 0 | _ => false

/-- flags: balanced+mapped; superposition with the small `getIts` of Model/C15.lean AND with the general
    `C09.getIts` (the model validated against `fgutils.its.get_its`) through the adapter of
    Model/C15General.lean; Diels-Alder centre -/
def sampleFlags (da : Bool) (x g h : Graph) : SExp :=
  .list [ofBool (balancedMappedB x g h && halvesB x g h), ofBool (superpositionB x (getIts g h) && superGeneralB x g h),
         ofBool (!da || (daCentreOk x && daCycleB x (findCycle x)))]

def ofSample (x : Graph) : SExp :=
  let gh := reaction x
  .list [canonGraph x, canonGraph gh.1, canonGraph gh.2]

def asPath : SExp → Option (Nat × List Nat) := asPair asNat (asList asNat)

def handle : List SExp → Option SExp
  -- split of one expanded pattern
  | .atom "reaction" :: da :: x :: rest => do
      let da ← asBool da
      let x ← asGraph x
      let gh := reaction x
      let specImpl ← match rest with
        | [.list [.atom "raised", _]] => pure (ofBool false)
        | [.list [g, h]] => do
            let g ← asCanon g
            let h ← asCanon h
            pure (ofBool (sampleOk da x (graphOfCanon g) (graphOfCanon h)))
        | _ => pure none'
      -- the decidable hypotheses of `C15.superposition` / `balanced_mapped_of` on this sample
      let hyp := hypB x
      -- `generalOk`: hypotheses of `C15.superposition_general`; `resuperGeneralB`: the general
      -- `get_its(*split_its(x))` (C10.resuper through the adapter) is the lifted pattern
      pure (.list [.atom "ok", .list [canonGraph gh.1, canonGraph gh.2], ofBool (sampleOk da x gh.1 gh.2), specImpl, ofBool hyp,
                   ofBool (generalOk x), ofBool (resuperGeneralB x), ofBool (hasForming x), ofBool (hasBreaking x)])
  -- individual samples of a configuration along given choice paths
  | .atom "paths" :: da :: cfg :: cores :: aam :: paths :: rest => do
      let da ← asBool da
      let cfg ← asConfig cfg
      let cores ← asList asGraph cores
      let aam ← asBool aam
      let paths ← asList asPath paths
      let xs := paths.map fun p =>
        match cores[p.1]? with
        | some core => (buildPath cfg fuelMax core p.2).map (finish aam)
        | none => .error .runtime
      let model := .list (xs.map fun r => match r with | .ok x => ofSample x | .error e => ofErr e)
      let specModel := xs.all fun r => match r with
        | .ok x => let gh := reaction x; sampleOk da x gh.1 gh.2
        | .error _ => false
      let specImpl ← match rest with
        | [.list [.atom "raised", _]] => pure (ofBool false)
        | [impl] => do
            let ss ← asList asSample impl
            pure (ofBool (ss.length == paths.length && ss.all fun s =>
              sampleOk da (graphOfCanon s.1) (graphOfCanon s.2.1) (graphOfCanon s.2.2)))
        | _ => pure none'
      -- how many of the model's samples satisfy the theorems' decidable hypotheses (`hypB`, `generalOk`), on how
      -- many of those the general `get_its(*split_its(x))` is the lifted pattern, forming / breaking bonds present
      let oks := xs.filterMap fun r => match r with | .ok x => some x | .error _ => none
      let cnt := fun (f : Graph → Bool) => ofNat (oks.filter f).length
      pure (.list [.atom "ok", model, ofBool specModel, specImpl, cnt hypB, cnt generalOk,
                   cnt (fun x => generalOk x && resuperGeneralB x), cnt hasForming, cnt hasBreaking])
  -- every reaction of a (generated) reaction-proxy configuration, tied to the MODEL's expansion of the configuration:
  -- the implementation's samples `(X, G, H)` (canonical forms, sorted by rendering) against the model's
  -- `generate` + `split_its`; specification on the implementation's list: every sample passes `sampleOk` AND the
  -- multiset of its expanded patterns `X` is the multiset of patterns the model expands from the configuration
  -- ("the ITS pattern the proxy expanded" is an expansion of the configuration: ids 0..n-1, nothing lost or merged)
  | .atom "reactions" :: cfg :: cores :: rest => do
      let cfg ← asConfig cfg
      let cores ← asList asGraph cores
      match generate cfg fuelMax true cores with
      | .error e =>
          let specImpl := match rest with
            | [.list [.atom "raised", .atom k]] => ofBool (toString (ofErr e) == toString (SExp.list [.atom "raised", .atom k]))
            | [_] => ofBool false
            | _ => none'
          pure (.list [.atom "ok", ofErr e, ofBool true, specImpl, ofNat 0])
      | .ok xs =>
          let model := sortByRender (xs.map ofSample)
          let specModel := xs.all fun x => let gh := reaction x; sampleOk false x gh.1 gh.2
          let renderLe : String → String → Bool := fun a b => decide (a ≤ b)
          let specImpl ← match rest with
            | [.list [.atom "raised", _]] => pure (ofBool false)
            | [.list impl] => do
                let ss ← impl.mapM asSample
                let implX := (impl.map fun s => match s with
                  | .list (x :: _) => toString x
                  | _ => "").mergeSort renderLe
                let modelX := (xs.map fun x => toString (canonGraph x)).mergeSort renderLe
                pure (ofBool (implX == modelX && ss.all fun s =>
                  sampleOk false (graphOfCanon s.1) (graphOfCanon s.2.1) (graphOfCanon s.2.2)))
            | _ => pure none'
          pure (.list [.atom "ok", .list model, ofBool specModel, specImpl, ofNat xs.length])
  -- per-core sample counts of a shipped collection: the count formula (`C14.numExp`, proved equal to the number of
  -- samples: `C14.total`) per core graph, for the cores the harness REALLY iterated (`iterated`); the
  -- implementation's counts must equal them and, when every core was iterated, sum up to the documented number
  | .atom "core_counts" :: .atom which :: cfg :: cores :: iterated :: rest => do
      let cfg ← asConfig cfg
      let cores ← asList asGraph cores
      let iterated ← asList asBool iterated
      let documented : Option Nat := match which with
        | "da_pos" => some 10470 | "da_neg" => some 12875 | _ => none
      let formula := cores.map (numExp cfg)
      let model : List (Option Nat) := (formula.zip iterated).map fun p => if p.2 then some p.1 else none
      let total := formula.foldl (· + ·) 0
      let specModel := iterated.length == cores.length && (match documented with | some d => total == d | none => true)
      let specImpl ← match rest with
        | [.list [.atom "raised", _]] => pure (ofBool false)
        | [impl] => do
            let out ← asList (asOpt asNat) impl
            let sum := out.foldl (fun acc o => acc + o.getD 0) 0
            pure (ofBool (out == model &&
              (!(iterated.all id) || match documented with | some d => sum == d | none => true)))
        | _ => pure none'
      pure (.list [.atom "ok", .list (model.map fun o => match o with | some n => ofNat n | none => none'),
                   ofBool specModel, specImpl, ofNat total, .list (formula.map ofNat)])
  -- whole enumeration: fingerprints of (X, g, h) in order + model-side flags
  | .atom "enum_fp" :: da :: cfg :: cores :: aam :: _ => do
      let da ← asBool da
      let cfg ← asConfig cfg
      let cores ← asList asGraph cores
      let aam ← asBool aam
      match generate cfg fuelMax aam cores with
      | .error e => pure (.list [.atom "ok", ofErr e, ofBool true, none'])
      | .ok xs =>
        let fps := xs.map fun x =>
          let gh := reaction x
          SExp.list [fingerprint (canonGraph x), fingerprint (canonGraph gh.1), fingerprint (canonGraph gh.2),
                     ofBool (sampleOk da x gh.1 gh.2)]
        let allOk := xs.all fun x => let gh := reaction x; sampleOk da x gh.1 gh.2
        pure (.list [.atom "ok", .list fps, ofBool allOk, none', ofNat xs.length])
  -- the property on implementation samples (canonical forms), thorough tier
  | .atom "check_samples" :: da :: samples :: _ => do
      let da ← asBool da
      let ss ← asList asSample samples
      let flags := ss.map fun s => sampleFlags da (graphOfCanon s.1) (graphOfCanon s.2.1) (graphOfCanon s.2.2)
      let all := ss.all fun s => sampleOk da (graphOfCanon s.1) (graphOfCanon s.2.1) (graphOfCanon s.2.2)
      pure (.list [.atom "ok", .list flags, ofBool true, ofBool all])
  | _ => none

end C15
