import FGVerif.Driver.Shared
/-! driver operations for C05 (stub: replaced by the property's own driver) -/
namespace C05
def handle : List SExp → Option SExp := fun _ => none
end C05
