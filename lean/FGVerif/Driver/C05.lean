import FGVerif.Driver.Shared
import FGVerif.Model.C05
import FGVerif.Generated.C05
/-! driver operations for C05 -/
namespace C05
open SExp Perm

/-- `(name pattern (group_atom …) (anti_pattern …) max_pattern_size (child …))` -/
def asTreeNode : SExp → Option TreeNode
  | .list [n, p, ga, ap, sz, ch] => do
      pure { cfg := { name := ← asStr n, pattern := ← asGraph p, groupAtoms := ← asList asInt ga,
                      antiPatterns := ← asList asGraph ap, maxPatternSize := ← asInt sz },
             children := ← asList asNat ch }
  | _ => none

/-- `((node …) (root …))` -/
def asTree : SExp → Option Tree
  | .list [ns, rs] => do pure { nodes := ← asList asTreeNode ns, roots := ← asList asNat rs }
  | _ => none

def ofTreeNode (nd : TreeNode) : SExp :=
  .list [ofStr nd.cfg.name, ofGraph nd.cfg.pattern, ofList ofInt nd.cfg.groupAtoms,
         ofList ofGraph nd.cfg.antiPatterns, ofInt nd.cfg.maxPatternSize, ofList ofNat nd.children]

def ofTree (t : Tree) : SExp := .list [ofList ofTreeNode t.nodes, ofList ofNat t.roots]

def ofEntries (l : List (String × List Int)) : SExp :=
  ofList (fun (e : String × List Int) => .list [ofStr e.1, ofList ofInt e.2]) l

def asEntries : SExp → Option (List (String × List Int)) :=
  asList (asPair asStr (asList asInt))

def ofFailure : Failure → SExp
  | .unknownName k => .list [.atom "unknown", ofNat k]
  | .notSorted k => .list [.atom "unsorted", ofNat k]
  | .foreignId k => .list [.atom "foreign", ofNat k]
  | .unwitnessed k => .list [.atom "unwitnessed", ofNat k]
  | .moreSpecific k => .list [.atom "morespecific", ofNat k]
  | .uncovered a => .list [.atom "uncovered", ofInt a]

/-- the tree of the default configuration as generated from the source -/
def generatedDefaultTree : Tree :=
  { nodes := Gen.C05.defaultTreeNodes.map fun r =>
      { cfg := { name := r.1, pattern := r.2.1, groupAtoms := r.2.2.1, antiPatterns := r.2.2.2.1,
                 maxPatternSize := r.2.2.2.2.1 }, children := r.2.2.2.2.2 },
    roots := Gen.C05.defaultTreeRoots }

/-- `(get <mapper> <tree> <mol> <requireH 0|1> [impl entries | (raised K)])`
      → `(ok <model entries> <spec_model> <spec_impl|_> <failures of impl> <failures of model> <topo>
            (<WitnessPathClosed instances> (<failing (atom node descendant)> …)))`
    `(isfg <mapper> <tree node> <graph> <index> <max_id|_> [impl (is_fg (id …))])`
      → `(ok (is_fg (id …)) 1 _)` (correspondence only)
    `(gentree)` → `(ok <generated default tree> 1 _)` -/
def handle : List SExp → Option SExp
  | .atom "get" :: m :: t :: g :: rh :: rest => do
      let m ← asMapper m
      let t ← asTree t
      let g ← asGraph g
      let rh ← asBool rh
      let model := getFunctionalGroups t g m rh
      let failModel := specFailures m t g rh model
      let (specImpl, failImpl) ← match rest with
        | [.list [.atom "raised", _]] => pure (ofBool false, SExp.list [.list [.atom "raised"]])
        | [impl] => do
            let out ← asEntries impl
            let f := specFailures m t g rh out
            pure (ofBool (specCheck m t g rh out), ofList ofFailure f)
        | _ => pure (none', .list [])
      let pc := pathClosedViolations (modelMatcher m) t (queryGraph g rh).2 g.maxId (candidates g) t.descendantsOf
      let pcx := SExp.list [ofNat ((candidates g).length * t.nodes.length),
        ofList (fun (v : Int × Nat × Nat) => .list [ofInt v.1, ofNat v.2.1, ofNat v.2.2]) pc]
      pure (.list [.atom "ok", ofEntries model, ofBool (specCheck m t g rh model), specImpl, failImpl,
                   ofList ofFailure failModel, ofBool t.topo, pcx])
  | .atom "isfg" :: m :: nd :: g :: idx :: mx :: rest => do
      let m ← asMapper m
      let nd ← asTreeNode nd
      let g ← asGraph g
      let idx ← asInt idx
      let mx ← asOpt asInt mx
      let r := isFunctionalGroup g idx nd.cfg m mx
      let enc := SExp.list [ofBool r.1, ofList ofInt r.2]
      -- correspondence only: the property speaks about `get`, not about this helper
      let _ := rest
      pure (.list [.atom "ok", enc, ofBool true, none'])
  | [.atom "gentree"] => pure (.list [.atom "ok", ofTree generatedDefaultTree, ofBool true, none'])
  | _ => none

end C05
