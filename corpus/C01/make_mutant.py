#!/venv/bin/python
"""make a mutated copy of /repo: mk.py <name>  -> /tmp/fgutils_mut/<name>"""
import os, shutil, subprocess, sys
name = sys.argv[1]
dst = "/tmp/fgutils_mut/" + name
if os.path.exists(dst): shutil.rmtree(dst)
os.makedirs(os.path.dirname(dst), exist_ok=True)
shutil.copytree("/repo", dst, symlinks=True)
p = dst + "/fgutils/parse.py"
s = open(p).read()
def rep(a, b, count=1):
    global s
    assert s.count(a) >= 1, a
    s = s.replace(a, b) if count == 0 else s.replace(a, b, count)
if name == "rev_daa3854":
    rep(r'''r"\.|-|=|#|\$|:|/|\\"''', r'''r"\.|-|=|#|$|:|/|\\"''')
elif name == "rev_6568bbb":
    rep("if self.is_its and not isinstance(value, tuple) and value != 0:", "if self.is_its and not isinstance(value, tuple):")
elif name == "rev_69a8e23":
    open(p, "w").write(s)
    d = subprocess.run(["git", "-C", "/repo", "show", "69a8e23"], stdout=subprocess.PIPE, text=True).stdout
    r = subprocess.run(["git", "apply", "-R", "-"], input=d, text=True, cwd=dst)
    assert r.returncode == 0
    s = open(p).read()
elif name == "m03":
    rep("node_attributes[AAM_KEY] = idx + 1", "node_attributes[AAM_KEY] = self.graph.number_of_nodes() + 1")
elif name == "m05":
    rep("self.anchor = self.branches.pop()", "self.anchor = self.branches.pop() if self.branches else self.anchor")
elif name == "own_pop0":
    rep("self.anchor = self.branches.pop()", "self.anchor = self.branches.pop(0)")
elif name == "own_lazy_its":
    rep('''        if "RC_BOND" in [t for t, _, _ in tokens]:
            self.is_its = True
''', "")
    rep('''        self.__set_bond_order((g_bond, h_bond))''', '''        self.is_its = True
        self.__set_bond_order((g_bond, h_bond))''')
elif name == "own_rc_empty0":
    rep('h_bond = 1 if h_bond == "" else int(h_bond)', 'h_bond = 0 if h_bond == "" else int(h_bond)')
elif name == "own_ring_int_key":
    rep('''    def __process_token_ring(self, value):
''', '''    def __process_token_ring(self, value):
        value = int(value)
''')
elif name == "own_ring_arom_closing_only":
    rep('''                and ring_anchor_sym.islower()
''', "")
elif name == "harmless_edge_dir":
    rep("self.graph.add_edge(self.anchor, idx, **edge_attributes)", "self.graph.add_edge(idx, self.anchor, **edge_attributes)")
elif name == "harmless_tokens_tuple":
    rep("tokens = list(tokenize(pattern))", "tokens = tuple(tokenize(pattern))")
else:
    raise SystemExit("unknown mutant")
open(p, "w").write(s)
print(dst)
