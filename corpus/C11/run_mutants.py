#!/venv/bin/python
"""apply each mutant to a scratch copy of /repo and run ./check C11 against it"""
import os, shutil, subprocess, sys, time
BASE = os.environ.get("MUT_DIR", "/tmp/c11_mutants")
VERIF = os.path.dirname(os.path.dirname(os.path.dirname(os.path.abspath(__file__))))
UT = "fgutils/utils.py"; IT = "fgutils/its.py"
NEW_LOOP = """    D = np.identity(A.shape[0], dtype=A.dtype)
    D_sum = D.copy()
    for _ in range(radius):
        D = (np.matmul(D, A) > 0).astype(A.dtype)
        D_sum += D
"""
CLAMP = "        D = (np.matmul(D, A) > 0).astype(A.dtype)\n"
MUTANTS = {
 "m19": [(IT, "        if edge_label[0] != edge_label[1]:", "        if edge_label[0] != edge_label[1] and edge_label[1] != 3:")],
 "f8a_identity_only_r0": [(UT, NEW_LOOP, """    if radius == 0:
        D_sum = np.identity(A.shape[0])
    else:
        D = A.copy()
        D_sum = A.copy()
        for _ in range(radius - 1):
            D = (np.matmul(D, A) > 0).astype(A.dtype)
            D_sum += D
""")],
 "f8b_nodelist_range": [(UT, "    nodelist = sorted(g.nodes)\n", "    nodelist = list(range(len(g.nodes)))\n")],
 "f8b2_raw_ids_as_indices": [(UT, "    start_indices = [node_index[n] for n in start_nodes]\n", "    start_indices = list(start_nodes)\n")],
 "f8c_len_as_fresh_id": [(IT, "    new_node_id = max(its.nodes, default=-1) + 1", "    new_node_id = len(its.nodes)")],
 "own_range_radius_minus_1": [(UT, "    for _ in range(radius):", "    for _ in range(radius - 1):")],
 "m20_adapted": [(UT, "    for _ in range(radius):", "    for _ in range(radius if radius < 4 else radius - 1):")],
 "own_Dsum_starts_zero": [(UT, "    D_sum = D.copy()\n", "    D_sum = np.zeros_like(D)\n")],
 "own_H_bond_label": [(IT, "its_pruned.add_edge(new_node_id, v, **{BOND_KEY: (1, 1)})", "its_pruned.add_edge(new_node_id, v, **{BOND_KEY: (1, 0)})")],
 "own_no_id_increment": [(IT, "                    new_node_id += 1\n", "                    pass\n")],
 "own_unsorted_nodelist_no_map": [(UT, "    return np.array([nodelist[i] for i in np.where(center_paths == 0)[0]], dtype=int)", "    return np.array([sorted(nodelist, reverse=True)[i] for i in np.where(center_paths == 0)[0]], dtype=int)")],
 "own_cols_instead_of_rows_directed_irrelevant": [(UT, "    center_paths = D_sum[start_indices].sum(axis=0)", "    center_paths = D_sum[start_indices[:1]].sum(axis=0) if len(start_indices) > 2 else D_sum[start_indices].sum(axis=0)")],
 # reversal of 5e2d069: int64 walk counts wrap around (caught by the doubling-gadget witnesses and big:* families)
 "int64_revert_5e2d069": [(UT, CLAMP, "        D = np.matmul(D, A)\n")],
 "int64_noclamp_large_graphs_only": [(UT, CLAMP, "        D = (np.matmul(D, A) > 0).astype(A.dtype) if A.shape[0] < 150 else np.matmul(D, A)\n")],
 "int64_revert_and_gt0_test(C11_r2_2 on its own tree)": [(UT, CLAMP, "        D = np.matmul(D, A)\n"),
    (UT, "    return np.array([nodelist[i] for i in np.where(center_paths == 0)[0]], dtype=int)", "    return np.array([n for n, r in zip(nodelist, center_paths > 0) if not r], dtype=int)")],
 # answers that depend on an earlier call / an earlier state of the same object (caught by the same-object histories)
 "history_lru_cache_get_rc": [(IT, "def get_rc(ITS: nx.Graph) -> nx.Graph:", "import functools\n\n\n@functools.lru_cache(maxsize=None)\ndef get_rc(ITS: nx.Graph) -> nx.Graph:")],
 "history_memo_unreachable_by_object_id": [(UT, "def get_unreachable_nodes(g, start_nodes, radius=1):\n", "_MEMO = {}\n\n\ndef get_unreachable_nodes(g, start_nodes, radius=1):\n    _k = (id(g), tuple(start_nodes), radius)\n    if _k in _MEMO:\n        return _MEMO[_k][1]\n    _MEMO[_k] = (g, _get_unreachable_nodes(g, start_nodes, radius))\n    return _MEMO[_k][1]\n\n\ndef _get_unreachable_nodes(g, start_nodes, radius=1):\n")],
 "history_ITS_prune_from_original_graph": [(IT, "        self.graph = prune_its_to_rc(\n            self.graph, radius=radius, insert_hydrogens=insert_hydrogens\n        )", "        if not hasattr(self, '_orig'):\n            self._orig = self.graph\n        self.graph = prune_its_to_rc(\n            self._orig, radius=radius, insert_hydrogens=insert_hydrogens\n        )")],
 # seeded change C11_r3_1 on top of the current code: one BFS per start node sharing a single visited set (start ORDER matters)
 "start_order_bfs_shared_visited(C11_r3_1 adapted)": [(UT, """    nodelist = sorted(g.nodes)
    node_index = {n: i for i, n in enumerate(nodelist)}
    A = nx.adjacency_matrix(g, nodelist=nodelist).toarray()
""" + NEW_LOOP + """    start_indices = [node_index[n] for n in start_nodes]
    center_paths = D_sum[start_indices].sum(axis=0)
    return np.array([nodelist[i] for i in np.where(center_paths == 0)[0]], dtype=int)
""", """    reached = set(start_nodes)
    for n in start_nodes:
        frontier = {n}
        for _ in range(radius):
            frontier = {v for u in frontier for v in g.neighbors(u)} - reached
            if len(frontier) == 0:
                break
            reached.update(frontier)
    return np.array([n for n in sorted(g.nodes) if n not in reached], dtype=int)
""")],
 # harmless rewrites: must stay quiet
 "ok_clamp_by_minimum": [(UT, CLAMP, "        D = np.minimum(np.matmul(D, A), 1)\n")],
 "ok_reverse_unreachable_order": [(IT, "    for u in unreachable_nodes:\n", "    for u in unreachable_nodes[::-1]:\n")],
 "ok_unsorted_nodelist": [(UT, "    nodelist = sorted(g.nodes)\n", "    nodelist = list(g.nodes)[::-1]\n")],
 "ok_rc_edge_order": [(IT, "    for n1, n2, d in ITS.edges(data=True):\n        edge_label = d[BOND_KEY]", "    for n2, n1, d in reversed(list(ITS.edges(data=True))):\n        edge_label = d[BOND_KEY]")],
 "ok_cols": [(UT, "    center_paths = D_sum[start_indices].sum(axis=0)", "    center_paths = D_sum[:, start_indices].sum(axis=1)")],
}
names = sys.argv[1:] or list(MUTANTS)
for name in names:
    os.makedirs(BASE, exist_ok=True)
    d = os.path.join(BASE, "repo_" + name)
    shutil.rmtree(d, ignore_errors=True)
    shutil.copytree("/repo", d, ignore=shutil.ignore_patterns(".git", "__pycache__"))
    for f, old, new in MUTANTS[name]:
        p = os.path.join(d, f)
        s = open(p).read()
        assert s.count(old) == 1, (name, f, s.count(old))
        open(p, "w").write(s.replace(old, new))
    t = time.time()
    env = dict(os.environ, FGUTILS_REPO=d, VERIF_SEED=os.environ.get("VERIF_SEED", "0"))
    p = subprocess.run([os.path.join(VERIF, "check"), "C11"], env=env, stdout=subprocess.PIPE, stderr=subprocess.STDOUT, text=True, cwd=VERIF)
    lines = [l for l in p.stdout.splitlines() if "WARNING conda" not in l]
    print("%-45s exit=%d %.0fs  %s" % (name, p.returncode, time.time() - t, " | ".join(lines)[:230]))
    shutil.rmtree(d, ignore_errors=True)
