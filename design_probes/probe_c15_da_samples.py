import collections, sys
import networkx as nx
from fgutils.proxy_collection.diels_alder_proxy import DielsAlderProxy
from fgutils.its import get_its, get_rc
from fgutils.rdkit import graph_to_mol
from rdkit import Chem
stats=collections.Counter()
bad=[]
for neg in (False, True):
    p=DielsAlderProxy(neg_sample=neg)
    for i,(g,h) in enumerate(p):
        ok=True
        if set(g.nodes)!=set(h.nodes) or sorted(g.nodes)!=list(range(len(g))): ok=False; stats['ids']+=1
        for n in g.nodes:
            if g.nodes[n]['symbol']!=h.nodes[n]['symbol'] or g.nodes[n]['aam']!=n+1 or h.nodes[n]['aam']!=n+1: ok=False; stats['attrs']+=1
        its=get_its(g,h); rc=get_rc(its)
        labs=sorted(d['bond'] for _,_,d in rc.edges(data=True))
        syms=[d['symbol'] for _,d in rc.nodes(data=True)]
        cyc = rc.number_of_nodes()==6 and rc.number_of_edges()==6 and all(d==2 for _,d in rc.degree()) and nx.is_connected(rc)
        stats[('rc',tuple(labs),cyc,tuple(sorted(set(syms))))]+=1
        for side,name in ((g,'g'),(h,'h')):
            try:
                m=graph_to_mol(side); Chem.SanitizeMol(m)
            except Exception as e:
                stats[('sanitize_fail',neg,name)]+=1
                if len(bad)<5: bad.append((neg,i,name,str(e)[:80]))
        # check scalar/tuples
        for u,v,d in g.edges(data=True):
            if isinstance(d['bond'],(tuple,list)): stats['tuple_in_g']+=1
for k,v in sorted(stats.items(), key=str): print(k,v)
print(bad)
