"""C01: prototype of the Chain syntax tree, its rendering and its compositional denotation
(declarative ring pairing) vs the real parser, on the sub-domain the unrepaired parser
handles (no '$', no '.' in ITS mode, upper-case atoms only unless --lower)."""
import random, sys, collections
from fgutils.parse import Parser

ATOMS = ['C', 'N', 'O', 'Cl', 'Br', 'S', 'R', 'Si', 'H']
ORD = {'-': 1, '=': 2, '#': 3, ':': 1.5, '.': 0}

class Chain:
    def __init__(s, atom, items, nxt): s.atom, s.items, s.nxt = atom, items, nxt   # items: ('ring', bond, id) | ('branch', bond, Chain)

def gen_chain(rng, budget, its, rings, depth=0):
    """rings: shared dict id -> number of occurrences so far (so closings can follow openings)"""
    lab = rng.random() < 0.12
    atom = ('{%s}' % ','.join(rng.sample(['g', 'a_1', 'x-2', 'Q9'], rng.randint(1, 2)))) if lab else rng.choice(ATOMS)
    items = []
    prev_ring = False
    for _ in range(rng.choice([0, 0, 1, 1, 2])):
        if rng.random() < 0.5:
            rid = rng.choice([1, 2, 3, 7, 10, 12])
            closing = rings.get(rid, 0) % 2 == 1
            bond = gen_bond(rng, its, allow_none=not prev_ring) if closing else None
            if not closing and prev_ring: continue          # WF: a mark right after a mark must carry a bond -> must be closing
            rings[rid] = rings.get(rid, 0) + 1
            items.append(('ring', bond, rid)); prev_ring = True
        elif budget[0] > 0 and depth < 3:
            budget[0] -= 1
            items.append(('branch', gen_bond(rng, its), gen_chain(rng, budget, its, rings, depth + 1))); prev_ring = False
    nxt = None
    if budget[0] > 0 and rng.random() < 0.8:
        budget[0] -= 1
        b = gen_bond(rng, its)
        nxt = (b, gen_chain(rng, budget, its, rings, depth))
    c = Chain(atom, items, nxt)
    return c

def gen_bond(rng, its, allow_none=True):
    r = rng.random()
    if allow_none and r < 0.45: return None
    if its and r < 0.7: return '<%s,%s>' % (rng.choice(['', '0', '1', '2']), rng.choice(['', '1', '2', '3']))
    if not its and r < 0.52: return '.'
    return rng.choice(['-', '=', '#', ':'])

def render(c):
    out = [c.atom]
    for it in c.items:
        if it[0] == 'ring': out += ([it[1]] if it[1] else []) + [str(it[2])]
        else: out += ['('] + ([it[1]] if it[1] else []) + render(it[2]) + [')']
    if c.nxt: out += ([c.nxt[0]] if c.nxt[0] else []) + render(c.nxt[1])
    return out

def lex_safe(toks):
    for a, b in zip(toks, toks[1:]):
        if a == 'S' and b in ('n', 'i', 'e'): return False
        if a == 'C' and b == 'l': return False
        if a.isdigit() and b.isdigit(): return False
    return True

def order_of(b, its):
    if b is None: o = 1
    elif b.startswith('<'):
        g, h = b[1:-1].split(','); return (1 if g == '' else int(g), 1 if h == '' else int(h))
    else: o = ORD[b]
    return (o, o) if its and o != 0 else o

def denote(c, off, its):
    """compositional: returns nodes [(id, sym, labels)], tree edge events, ring mark events (in textual order)"""
    nodes, events = [], []
    def walk(c, parent, bond):
        idx = off + len(nodes)
        lab = c.atom.startswith('{')
        nodes.append((idx, '#' if lab else c.atom, c.atom[1:-1].split(',') if lab else []))
        if parent is not None: events.append(('edge', parent, idx, bond))
        for it in c.items:
            if it[0] == 'ring': events.append(('mark', idx, it[1], it[2]))
            else: walk(it[2], idx, it[1])
        if c.nxt: walk(c.nxt[1], idx, c.nxt[0])
    walk(c, None, None)
    # declarative ring pairing: (2m-1)-th with 2m-th occurrence of the same id, in textual order
    occ = collections.defaultdict(list)
    for pos, e in enumerate(events):
        if e[0] == 'mark': occ[e[3]].append(pos)
    closing = {}
    for rid, ps in occ.items():
        for k in range(1, len(ps), 2): closing[ps[k]] = events[ps[k - 1]][1]
    edges = []
    for pos, e in enumerate(events):
        if e[0] == 'edge':
            o = order_of(e[3], its)
            if o != 0: edges.append((e[1], e[2], o))
        elif pos in closing:
            o = order_of(e[2], its)
            if o != 0: edges.append((e[1], closing[pos], o))
    return nodes, edges

rng = random.Random(int(sys.argv[1]) if len(sys.argv) > 1 else 1)
tot = bad = skipped = 0; stats = collections.Counter()
for it in range(20000):
    its = rng.random() < 0.4; multi = rng.random() < 0.5; off = rng.choice([0, 0, 1, 5]); aam = rng.random() < 0.3
    rings = {}
    c = gen_chain(rng, [rng.randint(0, 11)], its, rings)
    toks = render(c)
    if any(v % 2 for v in rings.values()): stats['unclosed ring (allowed, no edge)'] += 1
    if not lex_safe(toks): skipped += 1; continue
    has_rc = any(t.startswith('<') for t in toks)
    nodes, edges = denote(c, off, has_rc)
    if not multi:
        pairs = [frozenset(e[:2]) for e in edges]
        if len(set(pairs)) != len(pairs): skipped += 1; continue        # WF: no pair bonded twice in a simple graph
    s = ''.join(toks)
    g = Parser(use_multigraph=multi, init_aam=aam).parse(s, idx_offset=off)
    gn = [(n, d['symbol'], d['labels']) for n, d in g.nodes(data=True)]
    ge = sorted((min(u, v), max(u, v), repr(d['bond'])) for u, v, d in g.edges(data=True))
    ee = sorted((min(u, v), max(u, v), repr(o)) for u, v, o in edges)
    okaam = all((d.get('aam') == n + 1) if aam else ('aam' not in d) for n, d in g.nodes(data=True))
    tot += 1
    stats['its'] += has_rc; stats['rings closed'] += sum(v // 2 for v in rings.values()) > 0; stats['dots'] += '.' in toks
    stats['labels'] += any(t.startswith('{') for t in toks); stats['multi'] += multi
    if gn != nodes or ge != ee or not okaam:
        bad += 1
        if bad <= 5: print('DIFF', repr(s), off, '\n parser', gn, ge, '\n denote', nodes, ee)
print('cases', tot, 'bad', bad, 'skipped(lex/WF)', skipped, dict(stats))
