"""C13: the declarative substitution spec used in DESIGN.md vs the real replace_node."""
import random, collections
import networkx as nx
from fgutils.parse import Parser
from fgutils.proxy import replace_node, ProxyGraph

def rand_pattern(rng, n, its, with_label=True):
    # random SMILES-like string with branches and ring closures, one label node {g}
    atoms = ['C','N','O','c','S']
    toks = []; open_rings = []; nxt = 1; depth = 0; placed = 0
    label_at = rng.randrange(n) if with_label else -1
    for i in range(n):
        if i > 0:
            r = rng.random()
            if its and r < 0.4: toks.append('<%d,%d>' % (rng.randint(0,2), rng.randint(1,2)))
            elif r < 0.55: toks.append(rng.choice(['=', '-', '#']))
        toks.append('{g}' if i == label_at else rng.choice(atoms))
        # ring open/close
        if rng.random() < 0.35:
            if open_rings and rng.random() < 0.6:
                toks.append(str(open_rings.pop(rng.randrange(len(open_rings)))))
            else:
                toks.append(str(nxt)); open_rings.append(nxt); nxt += 1
        if depth > 0 and rng.random() < 0.3:
            toks.append(')'); depth -= 1
        elif i < n - 1 and rng.random() < 0.3:
            toks.append('('); depth += 1
    toks.extend(')' * depth)
    s = ''.join(toks)
    # '(' directly followed by ')' or string-initial problems are simply retried by caller
    return s

def spec(g, x, h, anchors, n):
    """explicit construction: returns canonical (nodes, edge multiset) of the expected result"""
    order = list(g.nodes)
    pos = {u: i for i, u in enumerate(order)}
    inc = []  # incident bonds of x in the composed graph's order
    multi = g.is_multigraph()
    def datas(u, v):
        return [d for _, d in g.adj[u][v].items()] if multi else [g.adj[u][v]]
    for m in order:
        if pos[m] < pos[x] and x in g.adj[m]:
            inc += [(m, d) for d in datas(m, x)]
    for v in g.adj[x]:
        if pos[v] > pos[x]:
            inc += [(v, d) for d in datas(x, v)]
    ren = lambda u: u if u < x else u - 1
    nodes = [(ren(u), g.nodes[u]['symbol'], tuple(g.nodes[u]['labels'])) for u in order if u != x]
    edges = collections.Counter()
    def add(u, v, b):
        edges[(min(u, v), max(u, v), repr(b))] += 1
    seen = set()
    for u, v, d in g.edges(data=True):
        if x in (u, v): continue
        add(ren(u), ren(v), d['bond'])
    if len(h) > 0:
        for j, dd in h.nodes(data=True):
            nodes.append((j - 1, dd['symbol'], tuple(dd['labels'])))
        for u, v, d in h.edges(data=True):
            add(u - 1, v - 1, d['bond'])
        for k, (v, d) in enumerate(inc):
            a = anchors[min(k, len(anchors) - 1)]
            add(n + a - 1, ren(v), d['bond'])
    if not multi:
        edges = collections.Counter({k: 1 for k in edges})  # simple graph: later write wins; generator avoids conflicts
    return sorted(nodes), edges

def canon(r):
    nodes = sorted((u, d['symbol'], tuple(d['labels'])) for u, d in r.nodes(data=True))
    edges = collections.Counter((min(u, v), max(u, v), repr(d['bond'])) for u, v, d in r.edges(data=True))
    return nodes, edges

rng = random.Random(3); tot = bad = skipped = 0; overflow = ringonlabel = 0
for it in range(6000):
    multi = rng.random() < 0.6; its = rng.random() < 0.4
    P = Parser(use_multigraph=multi)
    s = rand_pattern(rng, rng.randint(2, 8), its)
    try:
        g = P.parse(s)
    except Exception:
        skipped += 1; continue
    xs = [u for u, d in g.nodes(data=True) if d['is_labeled']]
    if not xs: skipped += 1; continue
    x = xs[0]; n = g.number_of_nodes()
    sub = rng.choice(['', 'C', 'NO', 'C(=O)O', 'c1ccccc1', 'C<2,1>C', 'S{q}'])
    hn = Parser(use_multigraph=multi).parse(sub).number_of_nodes()
    anchors = [rng.randrange(hn) for _ in range(rng.randint(1, 3))] if hn else [0]
    h = Parser(use_multigraph=multi).parse(sub, idx_offset=n)
    deg = sum(1 for _ in g.edges(x))
    if not multi:
        # skip simple-graph cases where two re-attached bonds would land on the same pair
        tgt = collections.Counter()
        inc_n = [m for m in g.nodes if m != x and g.has_edge(m, x)]
        if len(set(inc_n)) != len(inc_n): skipped += 1; continue
    exp = spec(g, x, h, anchors, n)
    got = canon(replace_node(g.copy(), x, ProxyGraph(sub, anchor=anchors), P))
    if not multi:
        got = (got[0], collections.Counter({k: 1 for k in got[1]}))
        # in a simple graph two incident bonds clamped onto one anchor from different neighbours are distinct pairs; fine
    tot += 1
    overflow += deg > len(anchors)
    ringonlabel += any(u > x for u in g.adj[x]) and any(u < x for u in g.adj[x])
    if exp != got:
        bad += 1
        if bad <= 5: print('DIFF', s, x, sub, anchors, multi, '\n exp', exp, '\n got', got)
print('cases', tot, 'bad', bad, 'skipped', skipped, 'anchor-overflow cases', overflow, 'label node with earlier and later neighbours', ringonlabel)
