import itertools, random, sys, time
import networkx as nx
from networkx.generators.atlas import graph_atlas_g
from fgutils.algorithm.subgraph_enumeration import node_induced_connected_subgraphs
def brute(G, a):
    comp = nx.node_connected_component(G,a)
    others=[n for n in comp if n!=a]
    res=set()
    for k in range(len(others)+1):
        for c in itertools.combinations(others,k):
            S=frozenset((a,)+c)
            if nx.is_connected(G.subgraph(S)): res.add(S)
    return res
t=time.time(); bad=0; cnt=0
rng=random.Random(0)
for G in graph_atlas_g():
    if G.number_of_nodes()==0 or G.number_of_nodes()>7: continue
    for a in G.nodes:
        out=[frozenset(U) for U in node_induced_connected_subgraphs(G,a)]
        exp=brute(G,a); cnt+=1
        if len(out)!=len(set(out)) or set(out)!=exp:
            bad+=1
            if bad<5: print('BAD',G.edges,a,len(out),len(set(out)),len(exp))
    # one random relabelling w/ string ids
    nodes=list(G.nodes); perm=nodes[:]; rng.shuffle(perm)
    m={n:'n%d'%p for n,p in zip(nodes,perm)}
    H=nx.relabel_nodes(G,m)
    # shuffle adjacency order
    H2=nx.Graph(); ns=list(H.nodes); rng.shuffle(ns); H2.add_nodes_from(ns); es=list(H.edges); rng.shuffle(es); H2.add_edges_from(es)
    for a in H2.nodes:
        out=[frozenset(U) for U in node_induced_connected_subgraphs(H2,a)]
        exp=brute(H2,a); cnt+=1
        if len(out)!=len(set(out)) or set(out)!=exp:
            bad+=1
            if bad<5: print('BAD2',H2.edges,a)
print('checked',cnt,'bad',bad,time.time()-t)
