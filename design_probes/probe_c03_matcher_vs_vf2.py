import random, itertools, time
import networkx as nx
from networkx.algorithms.isomorphism import GraphMatcher
from fgutils.permutation import PermutationMapper
from fgutils.algorithm.subgraph import map_anchored_subgraph, map_subgraph_to_graph
def rand_graph(rng, n, extra, syms, bonds):
    g=nx.Graph()
    for i in range(n): g.add_node(i, symbol=rng.choice(syms))
    for i in range(1,n): g.add_edge(i, rng.randrange(i), bond=rng.choice(bonds))
    for _ in range(extra if n>=2 else 0):
        u,v=rng.sample(range(n),2)
        if not g.has_edge(u,v): g.add_edge(u,v,bond=rng.choice(bonds))
    # shuffle adjacency order
    h=nx.Graph(); ns=list(g.nodes(data=True)); rng.shuffle(ns); h.add_nodes_from(ns); es=list(g.edges(data=True)); rng.shuffle(es); h.add_edges_from(es)
    return h
def admits(ps,hs,wild,ic):
    if ic: ps=ps.lower(); hs=hs.lower(); wild=wild.lower() if wild else wild
    return ps==wild or ps==hs
def anchored_embeds(H,a,P,pa,wild,ic):
    gm=GraphMatcher(H,P,node_match=lambda dh,dp:admits(dp['symbol'],dh['symbol'],wild,ic),edge_match=lambda x,y:x['bond']==y['bond'])
    for m in gm.subgraph_monomorphisms_iter():
        if m.get(a)==pa: return True
    return False
rng=random.Random(11)
t=time.time(); miss=0; unsound_cyc=0; unsound_acyc=0; tot=0; pos=0
for it in range(6000):
    n=rng.randint(2,8); H=rand_graph(rng,n,rng.choice([0,0,1,2,3]),['C','C','O','N','c'],[1,1,2])
    # pattern: random connected subgraph of H (edge-subset) with blurred symbols, or random graph
    if rng.random()<0.7:
        k=rng.randint(1,n); start=rng.choice(list(H.nodes)); S=[start]
        while len(S)<k:
            cand=[v for u in S for v in H.neighbors(u) if v not in S]
            if not cand: break
            S.append(rng.choice(cand))
        sub=H.subgraph(S)
        # drop some non-bridge edges
        P=nx.Graph(); ids=list(S); rng.shuffle(ids); mp={u:i for i,u in enumerate(ids)}
        for u in ids:
            s=H.nodes[u]['symbol']
            r=rng.random()
            if r<0.2: s='R'
            elif r<0.3: s=s.swapcase()
            P.add_node(mp[u],symbol=s)
        T=nx.minimum_spanning_tree(nx.Graph(sub.edges))
        for u,v,d in sub.edges(data=True):
            if T.has_edge(u,v) or rng.random()<0.6: P.add_edge(mp[u],mp[v],bond=d['bond'])
    else:
        P=rand_graph(rng,rng.randint(1,5),rng.choice([0,1]),['C','O','R','N'],[1,2])
    wild=rng.choice(['R',None]); ic=rng.random()<0.5
    m=PermutationMapper(wildcard=wild,ignore_case=ic)
    a=rng.choice(list(H.nodes)); pa=rng.choice(list(P.nodes))
    exp=anchored_embeds(H,a,P,pa,wild,ic)
    got,mapping,_=map_anchored_subgraph(H,a,P,pa,m)
    tot+=1; pos+=exp
    cyc = (H.number_of_edges()>=H.number_of_nodes()) or (P.number_of_edges()>=P.number_of_nodes())
    if exp and not got:
        miss+=1; print('MISS',list(H.nodes(data='symbol')),list(H.edges(data='bond')),a,list(P.nodes(data='symbol')),list(P.edges(data='bond')),pa,wild,ic)
    if got and not exp:
        if cyc: unsound_cyc+=1
        else: unsound_acyc+=1
print('total',tot,'embeddable',pos,'missed',miss,'unsound(cyclic)',unsound_cyc,'unsound(acyclic)',unsound_acyc,time.time()-t)
