import itertools, time
from fgutils.permutation import PermutationMapper
def admissible_set(pat, struct, wild, ic, cmtn):
    # mirrors the *statement*: injective into real slots, or 'nothing' with dummy multiset
    cm = sorted(cmtn, key=lambda x: 1 if wild is not None and x in wild else 0)
    if ic:
        wild = None if wild is None else wild.lower()
        pat=[p.lower() for p in pat]; struct=[s.lower() for s in struct]; cm=[c.lower() for c in cm]
    # dummy multiset in constructor order (wildcard last)
    cur=len(struct); dummies=[]
    for c in cm:
        if c==wild: k=len(pat)-cur
        else: k=sum(p==c for p in pat)-sum(s==c for s in struct)   # NOTE: counts against current (padded) structure in code
        k=max(0,k); dummies += [c]*k; cur+=k
    if len(pat)==0: return set()
    res=set()
    slots=list(range(len(struct)))+[('d',i) for i in range(len(dummies))]
    def sym(slot): return struct[slot] if isinstance(slot,int) else dummies[slot[1]]
    for choice in itertools.permutations(slots, len(pat)):
        if all(p==wild or p==sym(sl) for p,sl in zip(pat,choice)):
            res.add(tuple(sl if isinstance(sl,int) else -1 for sl in choice))
    return res
alpha=['C','c','H','R','Cl']
t=time.time(); n=0; bad=0
for wild in (None,'R'):
  for ic in (False,True):
    for cmtn in ([],['H'],['R'],['H','R'],['R','H'],['C','H']):
      m=PermutationMapper(wildcard=wild,ignore_case=ic,can_map_to_nothing=cmtn)
      for lp in range(0,4):
        for ls in range(0,4):
          for pat in itertools.product(alpha,repeat=lp):
            for st in itertools.product(alpha,repeat=ls):
              p0=list(pat); s0=list(st)
              out=m.permute(p0,s0); n+=1
              assert p0==list(pat) and s0==list(st)
              tup=[tuple(si for _,si in mp) for mp in out]
              okidx=all([pi for pi,_ in mp]==list(range(lp)) for mp in out)
              exp=admissible_set(list(pat),list(st),wild,ic,cmtn)
              if len(tup)!=len(set(tup)) or set(tup)!=exp or not okidx:
                  bad+=1
                  if bad<=8: print('DIFF',wild,ic,cmtn,pat,st,out,sorted(exp))
print('cases',n,'bad',bad,time.time()-t)
