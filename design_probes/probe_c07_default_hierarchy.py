import itertools, random, sys
import networkx as nx
from fgutils.fgconfig import FGConfigProvider, FGConfig, _default_fg_config, build_config_tree_from_list, is_subgroup
from fgutils.permutation import PermutationMapper
from fgutils.algorithm.subgraph import map_subgraph_to_graph
from networkx.algorithms.isomorphism import GraphMatcher

mapper = PermutationMapper(wildcard="R", ignore_case=True)
def sym_ok(ps, hs):
    ps=ps.lower(); hs=hs.lower()
    return ps=='r' or ps==hs
def true_embeds(pat, host):
    # pattern -> host monomorphism with symbol admission, equal bonds
    gm = GraphMatcher(host, pat, node_match=lambda dh,dp: sym_ok(dp['symbol'],dh['symbol']), edge_match=lambda a,b:a['bond']==b['bond'])
    return gm.subgraph_is_monomorphic()
cfgs=[FGConfig(**c) for c in _default_fg_config]
n=len(cfgs)
# oracle relation
rel={}
mrel={}
for a in cfgs:
    for b in cfgs:
        if a is b: continue
        rel[a.name,b.name]=true_embeds(a.pattern,b.pattern)
        mrel[a.name,b.name]=map_subgraph_to_graph(b.pattern,a.pattern,mapper)
diff=[k for k in rel if rel[k]!=mrel[k]]
print('matcher vs oracle diffs on default patterns:',diff)
both=[(a,b) for (a,b) in rel if rel[a,b] and rel[b,a]]
print('both directions (oracle):',both)
def tree_edges(roots):
    edges=set(); seen=set(); names=set()
    def rec(node):
        names.add(node.fgconfig.name)
        for c in node.children:
            edges.add((node.fgconfig.name,c.fgconfig.name))
            rec(c)
    for r in roots: rec(r)
    return edges, sorted(r.fgconfig.name for r in roots), names
roots=build_config_tree_from_list(cfgs,mapper)
E,R,N=tree_edges(roots)
print('roots',R)
print(len(E),'edges', len(N),'names')
# compute expected covering relation: with anti pattern exclusion
def anti_excl(a,b):
    return any(true_embeds(b.pattern, ap) if False else map_subgraph_to_graph(b.pattern, ap, mapper) for ap in a.anti_pattern)
byname={c.name:c for c in cfgs}
lt={(a,b) for (a,b) in rel if rel[a,b] and not anti_excl(byname[a],byname[b])}
cover={(a,b) for (a,b) in lt if not any((a,c) in lt and (c,b) in lt for c in byname)}
print('cover - E', sorted(cover-E)); print('E - cover', sorted(E-cover))
exp_roots=sorted(b for b in byname if not any((a,b) in lt for a in byname))
print('roots ok', exp_roots==R, exp_roots)
# transitivity
nontrans=[(a,b,c) for (a,b) in lt for (b2,c) in lt if b2==b and (a,c) not in lt and a!=c]
print('nontransitive', nontrans)
# permutations
rng=random.Random(1)
bad=0
for i in range(30):
    p=cfgs[:]; rng.shuffle(p)
    E2,R2,_=tree_edges(build_config_tree_from_list(p,mapper))
    if E2!=E or R2!=R: bad+=1
print('perm diffs',bad)
# ties in sort key among comparable
for (a,b) in lt:
    ka=(byname[a].pattern_len,len(byname[a].pattern)); kb=(byname[b].pattern_len,len(byname[b].pattern))
    if not ka<kb: print('key not strict',a,b,ka,kb)
