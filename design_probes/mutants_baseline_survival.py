import subprocess, pathlib, sys, json
M = [
 # (id, prop, file, old, new)
 ("m01","C01","fgutils/parse.py","            self.__set_bond_order(1)\n            del self.rings[value]","            del self.rings[value]"),
 ("m02","C01","fgutils/parse.py","            idx = self.graph.number_of_nodes() + idx_offset","            idx = self.graph.number_of_nodes() + (idx_offset if idx_offset < 3 else idx_offset + 1)"),
 ("m03","C01","fgutils/parse.py","            node_attributes[AAM_KEY] = idx + 1","            node_attributes[AAM_KEY] = self.graph.number_of_nodes() + 1"),
 ("m04","C01","fgutils/parse.py","        h_bond = 1 if h_bond == \"\" else int(h_bond)","        h_bond = g_bond if h_bond == \"\" else int(h_bond)"),
 ("m05","C01/C02","fgutils/parse.py","            self.anchor = self.branches.pop()","            self.anchor = self.branches.pop() if len(self.branches) > 1 else self.branches[-1]"),
 ("m06","C03","fgutils/algorithm/subgraph.py","                    if not _is_valid:\n                        break\n                if _is_valid:","                    if not _is_valid:\n                        break\n                if _is_valid or True:"),
 ("m07","C03","fgutils/algorithm/subgraph.py","            for n_mapping in mapper.permute(pnn_syms, nn_syms):","            for n_mapping in mapper.permute(pnn_syms, nn_syms)[:2]:"),
 ("m08","C04","fgutils/algorithm/subgraph.py","                    if nn_bond == pnn_bond:","                    if nn_bond == pnn_bond or pnn_bond == 3:"),
 ("m09","C05","fgutils/query.py","if fg_id in config.group_atoms and m_id <= max_id","if fg_id in config.group_atoms and m_id <= max_id + 1"),
 ("m10","C05","fgutils/query.py","                is_fg = is_fg and not _is_fg","                is_fg = is_fg and not (_is_fg and apattern_size > 4)"),
 ("m11","C05","fgutils/query.py","                    elif i in unidentified_ids:","                    elif i in unidentified_ids and False:"),
 ("m12","C06","fgutils/query.py","            graph = add_implicit_hydrogens(copy.deepcopy(graph))","            graph = add_implicit_hydrogens(graph)"),
 ("m13","C07","fgutils/fgconfig.py","            if _parents is None:\n                parents.add(root)\n            else:\n                parents.update(_parents)","            if _parents is None:\n                parents.add(root)\n            else:\n                parents.update(_parents[:1])"),
 ("m14","C07","fgutils/fgconfig.py","            key=lambda x: (x.pattern_len, len(x.pattern), hash(x.pattern_str)),","            key=lambda x: (len(x.pattern), x.pattern_len, hash(x.pattern_str)),"),
 ("m15","C08","fgutils/permutation.py","            if mapping_set not in mapping_sets:","            if mapping_set not in mapping_sets[-1:]:"),
 ("m16","C08","fgutils/permutation.py","            structure = [s.lower() for s in structure]\n","            structure = [s.lower() for s in structure]\n            structure.sort()\n"),
 ("m17","C09","fgutils/its.py","        if not G.has_edge(n_G1, n_G2) and n_ITS1 > 0 and n_ITS2 > 0:","        if not G.has_edge(n_G1, n_G2) and n_ITS1 > 1 and n_ITS2 > 1:"),
 ("m18","C10","fgutils/its.py","        if b == 0:\n            g.remove_edge(u, v)\n        else:\n            g[u][v][BOND_KEY] = b\n\n    g = graph.copy()","        if b == 0 or b == 3:\n            g.remove_edge(u, v)\n        else:\n            g[u][v][BOND_KEY] = b\n\n    g = graph.copy()"),
 ("m19","C11","fgutils/its.py","        if edge_label[0] != edge_label[1]:","        if edge_label[0] != edge_label[1] and edge_label[1] != 3:"),
 ("m20","C11","fgutils/utils.py","        for _ in range(radius - 1):","        for _ in range(max(radius - 1, 0) if radius < 4 else radius - 2):"),
 ("m21","C12","fgutils/utils.py","        5: [\"N\", \"P\", \"As\", \"Sb\", \"Bi\"],","        5: [\"N\", \"As\", \"Sb\", \"Bi\"],\n        3.5: [\"P\"],"),
 ("m22","C12","fgutils/utils.py","    nodes = [\n        (n_id, n_sym)\n        for n_id, n_sym in graph.nodes(data=SYMBOL_KEY)  # type: ignore\n        if n_sym not in [\"R\", \"H\"]","    nodes = [\n        (n_id, n_sym)\n        for n_id, n_sym in graph.nodes(data=SYMBOL_KEY)  # type: ignore\n        if n_sym not in [\"R\"]"),
 ("m23","C13","fgutils/proxy.py","            if len(replacement_graph.anchor) <= i:\n                anchor_idx = len(replacement_graph.anchor) - 1","            if len(replacement_graph.anchor) <= i:\n                anchor_idx = 0"),
 ("m24","C14","fgutils/proxy.py","    for anchor_label in anchor_labels:\n        if anchor_label in groups.keys():\n            group_labels.append(anchor_label)","    for anchor_label in anchor_labels[:1]:\n        if anchor_label in groups.keys():\n            group_labels.append(anchor_label)"),
 ("m25","C15","fgutils/proxy_collection/diels_alder_proxy.py","            ProxyGraph(\"CC<2,1>CC#N\", anchor=[1, 2], name=\"but-2-enenitrile\"),","            ProxyGraph(\"CC<2,1>CC#N\", anchor=[1, 3], name=\"but-2-enenitrile\"),"),
 ("m26","C15","fgutils/proxy.py","                                graph.nodes[n][AAM_KEY] = n + 1","                                graph.nodes[n][AAM_KEY] = n + 1 if n < 40 else n"),
 ("m27","C16","fgutils/synthesis/rule_application.py","        if connected_only and not nx.is_connected(its):\n            continue","        if connected_only and not nx.is_connected(its) and len(its) > 12:\n            continue"),
 ("m28","C17","fgutils/algorithm/subgraph_enumeration.py","    return not (D[v] == D[x] and v > x)","    return not (D[v] == D[x] and v >= x + (1 if v < 6 else 2))"),
 ("m29","C18","fgutils/torch/utils.py","        node_idx_offset = node_indices.max() + 1","        node_idx_offset = node_indices.max() + (1 if batch_idx < 2 else 0)"),
 ("m30","C18","fgutils/chem/ps.py","atomic_num2sym = {num: sym for sym, num in atomic_sym2num.items()}","atomic_num2sym = {num: sym for sym, num in atomic_sym2num.items()}\natomic_sym2num[\"Se\"], atomic_sym2num[\"Br\"] = atomic_sym2num[\"Br\"], atomic_sym2num[\"Se\"]"),
 ("m31","C19","fgutils/rdkit.py","        \"QUADRUPLE\": 4,\n","        \"QUADRUPLE\": 3,\n"),
 ("m32","C19","fgutils/rdkit.py","        if aam > 0:\n            node_attributes[AAM_KEY] = aam","        if aam > 1:\n            node_attributes[AAM_KEY] = aam"),
 ("m33","C20","fgutils/utils.py","        while next_mapping in mappings:\n            next_mapping += 1","        while next_mapping in mappings[:6]:\n            next_mapping += 1"),
 ("m34","C20","fgutils/utils.py","                next_mapping = int(np.min(mappings))","                next_mapping = int(np.max(mappings))"),
 ("m35","C13","fgutils/proxy.py","    for i, u in enumerate(sorted(g.nodes)):","    for i, u in enumerate(sorted(g.nodes, key=lambda x: (x % 7 == 6, x))):"),
 ("m36","C10","fgutils/its.py","        complete_aam(graph, offset=\"min\")","        complete_aam(graph)"),
]
res=[]
for mid,prop,f,old,new in M:
    p=pathlib.Path(f); s=p.read_text()
    if s.count(old)!=1:
        res.append((mid,prop,'NOT-APPLIED',s.count(old))); print(mid,'not applied',s.count(old)); continue
    p.write_text(s.replace(old,new))
    r=subprocess.run(['/venv/bin/python','-m','pytest','-q','-x','-p','no:cacheprovider','--timeout=300'],capture_output=True,text=True)
    last=[l for l in r.stdout.strip().split('\n') if 'passed' in l or 'failed' in l or 'error' in l.lower()][-1:]
    status='SURVIVES' if r.returncode==0 else 'killed'
    res.append((mid,prop,status,last))
    print(mid,prop,status,last, flush=True)
    p.write_text(s)
json.dump(res,open('/tmp/mut_results.json','w'))
