import itertools, random, sys, copy
import networkx as nx
from networkx.algorithms.isomorphism import GraphMatcher
from fgutils import FGQuery
from fgutils.fgconfig import FGConfigProvider
from fgutils.rdkit import smiles_to_graph
from fgutils.utils import add_implicit_hydrogens

def sym_ok(ps, hs):
    ps=ps.lower(); hs=hs.lower()
    return ps=='r' or ps==hs
def embeddings(pat, host):
    gm = GraphMatcher(host, pat, node_match=lambda dh,dp: sym_ok(dp['symbol'],dh['symbol']), edge_match=lambda a,b:a['bond']==b['bond'])
    for m in gm.subgraph_monomorphisms_iter():
        yield {p:h for h,p in m.items()}   # pattern->host
prov=FGConfigProvider()
roots=prov.get_tree()
nodes={}
def walk(n):
    nodes[n.fgconfig.name]=n
    for c in n.children: walk(c)
for r in roots: walk(r)
def descendants(n, acc=None):
    acc=set() if acc is None else acc
    for c in n.children:
        if c.fgconfig.name not in acc:
            acc.add(c.fgconfig.name); descendants(c,acc)
    return acc
def witnessed(cfg, H, a, max_id, atoms=None):
    """exists embedding with a on a group atom; returns set of possible atom lists; anti-pattern veto"""
    res=set()
    for m in embeddings(cfg.pattern, H):
        ga=sorted(m[p] for p in cfg.group_atoms if m[p]<=max_id)
        if a in ga: res.add(tuple(ga))
    if not res: return res
    for ap in cfg.anti_pattern:
        for m in embeddings(ap, H):
            if a in m.values(): return set()
    return res
def check(smiles, q):
    g=smiles_to_graph(smiles)
    out=q.get(smiles)
    max_id=max(g.nodes)
    H=add_implicit_hydrogens(copy.deepcopy(g))
    problems=[]
    for name,atoms in out:
        if name not in nodes: problems.append(('unknown',name)); continue
        if atoms!=sorted(atoms) or any(a not in g.nodes for a in atoms): problems.append(('ids',name,atoms))
        cfg=nodes[name].fgconfig
        ok=False; why=[]
        for a in atoms:
            if g.nodes[a]['symbol'] in ('C','H'): continue
            w=witnessed(cfg,H,a,max_id)
            if tuple(atoms) not in w: why.append((a,'nowit')); continue
            desc=[d for d in descendants(nodes[name]) if witnessed(nodes[d].fgconfig,H,a,max_id)]
            if desc: why.append((a,'more specific',desc)); continue
            ok=True; break
        if not ok: problems.append(('unjustified',name,atoms,why))
    covered=set(a for _,at in out for a in at)
    for a,s in g.nodes(data='symbol'):
        if s in ('C','H'): continue
        if a in covered: continue
        if any(witnessed(r.fgconfig,H,a,max_id) for r in roots): problems.append(('uncovered',a,s))
    return out, problems
smis = ['O=C(C)Oc1ccccc1C(=O)O','CC(=O)Cl','O=CCl','CC(=O)SC(=O)OC','C1OC1','C1CC1O','OC1CC1','CC(O)(O)C','NC(=O)OC','CC(=O)OC(=O)C','OO','COOC','CC(=O)OO','C=C=O','CC(C)=C=O',
 'c1ccccc1O','c1ccccc1N','CN(C)C','CC#N','CN=O','C[N+](=O)[O-]','OCC(O)CO','C1CCOC1','C1COCCO1','O=C1CCC1','O=C1OCC1','CC(=O)N1CCCC1','S1CCCC1','CSC','CS','O','N','C(=O)=O','OC(=O)O',
 'CC(O)OC','CC(OC)OC','CC(C)(OC)OC','CC(C)(O)OC','ClC(Cl)Cl','FC(F)(F)C(=O)O','N#CC(=O)C','O=C(N)N','OC=C','C=COC','O=S(=O)(O)O','CS(=O)C','NC(N)=N','C1=COC=C1','c1ccoc1','c1ccsc1','C1CC2OC2C1','O1C2CC12','C12OC1O2']
q=FGQuery()
tot=0
for s in smis:
    try:
        out,pb=check(s,q)
    except Exception as e:
        print(s,'EXC',type(e).__name__,e); continue
    if pb: tot+=1; print(s,out,'PROBLEMS',pb)
print('molecules with problems',tot,'of',len(smis))
