import itertools, random
import networkx as nx
from networkx.algorithms.isomorphism import GraphMatcher
from fgutils.fgconfig import FGConfig, build_config_tree_from_list
from fgutils.permutation import PermutationMapper
mapper = PermutationMapper(wildcard="R", ignore_case=True)
def sym_ok(ps, hs):
    ps=ps.lower(); hs=hs.lower(); return ps=='r' or ps==hs
def emb(pat, host):
    gm = GraphMatcher(host, pat, node_match=lambda dh,dp: sym_ok(dp['symbol'],dh['symbol']), edge_match=lambda a,b:a['bond']==b['bond'])
    return gm.subgraph_is_monomorphic()
def rand_tree_pattern(rng, n, ring=False):
    syms=['C','C','O','N','R','S']
    # random tree as SMILES via recursive build
    def build(k):
        s=rng.choice(syms)
        if k<=1: return s, 1
        rest=k-1; out=s; used=1
        nb=rng.randint(1,min(3,rest))
        sizes=[1]*nb
        for _ in range(rest-nb): sizes[rng.randrange(nb)]+=1
        for i,sz in enumerate(sizes):
            b=rng.choice(['','','=',''])
            sub,_=build(sz)
            if i<nb-1: out+='('+b+sub+')'
            else: out+=b+sub
        return out,k
    return build(n)[0]
def tree_edges(roots):
    E=set()
    def rec(n):
        for c in n.children: E.add((n.fgconfig.name,c.fgconfig.name)); rec(c)
    for r in roots: rec(r)
    return E, {r.fgconfig.name for r in roots}
rng=random.Random(5)
fails=0; asserts=0; trials=0
for t in range(400):
    k=rng.randint(3,7)
    pats=[]
    while len(pats)<k:
        p=rand_tree_pattern(rng, rng.randint(1,5))
        if p not in pats: pats.append(p)
    cfgs=[FGConfig(name='g%d'%i, pattern=p) for i,p in enumerate(pats)]
    # oracle
    lt=set()
    for a in cfgs:
        for b in cfgs:
            if a is not b and emb(a.pattern,b.pattern) and not emb(b.pattern,a.pattern): lt.add((a.name,b.name))
    both=[(a.name,b.name) for a in cfgs for b in cfgs if a is not b and emb(a.pattern,b.pattern) and emb(b.pattern,a.pattern)]
    if both: continue
    trials+=1
    cover={(a,b) for (a,b) in lt if not any((a,c) in lt and (c,b) in lt for c in [x.name for x in cfgs])}
    rts={c.name for c in cfgs if not any((a.name,c.name) in lt for a in cfgs)}
    try:
        E,R=tree_edges(build_config_tree_from_list(cfgs,mapper))
    except AssertionError as e:
        asserts+=1; continue
    if E!=cover or R!=rts:
        fails+=1
        if fails<=5: print(pats, 'E-cover',E-cover,'cover-E',cover-E, 'roots',R^rts)
print('trials',trials,'fails',fails,'asserts',asserts)
