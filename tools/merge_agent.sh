#!/bin/sh
# usage: tools/merge_agent.sh <agent> <Cxx> [<Cyy> ...] — copy the property-owned files of the agent's copy into /verif
A=/tmp/w/$1/verif; shift
for P in "$@"; do
  p=$(echo $P | tr 'A-Z' 'a-z')
  for f in $A/lean/FGVerif/Model/$P*.lean $A/lean/FGVerif/Driver/$P.lean $A/lean/FGVerif/Proofs/$P*.lean $A/lean/FGVerif/Audit/$P.lean $A/harness/$p*.py $A/harness/gen_tables_$p*.py; do
    [ -f "$f" ] && { rel=${f#$A/}; mkdir -p /verif/$(dirname $rel); cp "$f" /verif/$rel; echo "copied $rel"; }
  done
  [ -d $A/corpus/$P ] && { mkdir -p /verif/corpus; rm -rf /verif/corpus/$P; cp -r $A/corpus/$P /verif/corpus/$P; echo "copied corpus/$P"; }
done
