#!/venv/bin/python
"""Confirm a seeded change independently and import it into /verif/seeded/.

usage: tools/verify_seed.py <prop> <k> [--needs "..."]
  reads /tmp/mut/out/<prop>/<k>/{patch.diff,demo.py,notes.md}; uses the scratch worktree /tmp/mut/<prop>
  1. worktree clean -> demo must exit 0
  2. apply patch -> full baseline suite must be 249 passed, demo must exit != 0
  3. revert -> worktree clean
  then copies to /verif/seeded/<prop>_<k>/ and writes meta.json.
"""
import json, os, re, shutil, subprocess, sys
VERIF = os.path.dirname(os.path.dirname(os.path.abspath(__file__)))


def sh(cmd, cwd=None, timeout=1800):
    return subprocess.run(cmd, cwd=cwd, stdout=subprocess.PIPE, stderr=subprocess.STDOUT, text=True, timeout=timeout)


def main():
    prop, k = sys.argv[1], sys.argv[2]
    rnd = os.environ.get("MUT_ROUND", "")
    src = "/tmp/mut/out%s/%s/%s" % (rnd, prop, k)
    wt = "/tmp/mut/%s" % prop
    env_py = "/venv/bin/python"
    ran = []
    sh(["git", "checkout", "--", "."], cwd=wt)
    if sh(["git", "status", "--porcelain"], cwd=wt).stdout.strip():
        print("worktree not clean"); return 2
    r0 = sh([env_py, os.path.join(src, "demo.py")], cwd=wt)
    ran.append("clean tree: demo.py exit %d" % r0.returncode)
    r = sh(["git", "apply", os.path.join(src, "patch.diff")], cwd=wt)
    if r.returncode != 0:
        print("patch does not apply:", r.stdout); return 2
    try:
        t = sh([env_py, "-m", "pytest", "-q", "-p", "no:cacheprovider", "--timeout=900", "-x"], cwd=wt)
        summary = [l for l in t.stdout.splitlines() if re.search(r"\d+ passed", l)]
        ran.append("patched tree: pytest -> %s" % (summary[-1].strip() if summary else t.stdout[-200:]))
        r1 = sh([env_py, os.path.join(src, "demo.py")], cwd=wt)
        ran.append("patched tree: demo.py exit %d: %s" % (r1.returncode, r1.stdout.strip().splitlines()[-1][:200] if r1.stdout.strip() else ""))
    finally:
        sh(["git", "checkout", "--", "."], cwd=wt)
    ok = r0.returncode == 0 and r1.returncode != 0 and summary and "249 passed" in summary[-1] and "failed" not in summary[-1]
    print("\n".join(ran))
    print("CONFIRMED" if ok else "REJECTED")
    if not ok:
        return 1
    dst = os.path.join(VERIF, "seeded", "%s_%s%s" % (prop, ("r" + rnd + "_") if rnd else "", k))
    os.makedirs(dst, exist_ok=True)
    for f in ("patch.diff", "demo.py", "notes.md"):
        if os.path.exists(os.path.join(src, f)):
            shutil.copy(os.path.join(src, f), os.path.join(dst, f))
    notes = open(os.path.join(src, "notes.md")).read() if os.path.exists(os.path.join(src, "notes.md")) else ""
    meta = {"property": prop, "origin": "independent sub-agent given only the property text and a scratch worktree",
            "needs_to_manifest": notes[:1500], "confirmed_by": ran, "expect": "violation"}
    json.dump(meta, open(os.path.join(dst, "meta.json"), "w"), indent=1)
    return 0


if __name__ == "__main__":
    sys.exit(main())
