#!/usr/bin/env python3
"""Markdown table of all seeded changes (seeded/*/meta.json + seeded/first_contact.json)."""
import json, os
V = os.path.dirname(os.path.dirname(os.path.abspath(__file__)))
fc = json.load(open(os.path.join(V, "seeded", "first_contact.json")))["missed_at_first_contact"]
rows = []
for sid in sorted(os.listdir(os.path.join(V, "seeded"))):
    d = os.path.join(V, "seeded", sid)
    if not os.path.isdir(d):
        continue
    m = json.load(open(os.path.join(d, "meta.json")))
    props = ",".join(m.get("properties") or [m["property"]])
    origin = "harmless rewrite" if sid.startswith("HARMLESS") else "fix reversal" if sid.startswith("FIXREV") else "reviewer" if sid.startswith(("R1_", "R3_")) else "builder" if "_rf" in sid else \
        "round 3" if "_r3_" in sid else "round 2" if "_r2_" in sid else "round 1"
    first = "missed: " + fc[sid] if sid in fc else "caught"
    if sid.startswith("HARMLESS"):
        ob = m.get("observed_before_remedies", "all ok")
        first = "quiet" if ob == "all ok" else "false alarm (%s), quiet since the remedies of 12.0" % ob
    elif m.get("expect") == "quiet":
        first = "must stay quiet"
    rows.append("| %s | %s | %s | %s |" % (sid, props, origin, first))
print("| id | property | origin | first contact |")
print("|----|----------|--------|---------------|")
print("\n".join(rows))
print("\n%d seeded changes (%d property-breaking, %d must-stay-quiet), %d missed at first contact, %d harmless rewrites alarmed at first contact" % (
    len(rows), sum(1 for r in rows if "quiet" not in r), sum(1 for r in rows if "quiet" in r),
    sum(1 for r in rows if "missed:" in r), sum(1 for r in rows if "false alarm" in r)))
