#!/venv/bin/python
"""Run the registered quick (or thorough) checks against the seeded property-breaking changes.

For every /verif/seeded/<id>/ (patch.diff + meta.json): apply the patch to /repo, run the check of
every property listed in meta["properties"] (default: meta["property"]), expect exit 1 with a
VIOLATION line, then undo the patch (git checkout -- .).  Prints a table; never leaves /repo dirty.

usage: tools/seeded_run.py [--tier quick|thorough] [--only <id substring>] [--expect-quiet]
"""
import argparse, json, os, subprocess, sys, time
VERIF = os.path.dirname(os.path.dirname(os.path.abspath(__file__)))
REPO = "/repo"


def sh(cmd, **k):
    return subprocess.run(cmd, stdout=subprocess.PIPE, stderr=subprocess.STDOUT, text=True, **k)


def main():
    ap = argparse.ArgumentParser()
    ap.add_argument("--tier", default="quick")
    ap.add_argument("--only", default=None)
    a = ap.parse_args()
    if sh(["git", "-C", REPO, "status", "--porcelain"]).stdout.strip():
        print("refusing: /repo is dirty"); return 2
    rows = []
    for sid in sorted(os.listdir(os.path.join(VERIF, "seeded"))):
        d = os.path.join(VERIF, "seeded", sid)
        if not os.path.isdir(d) or (a.only and a.only not in sid):
            continue
        meta = json.load(open(os.path.join(d, "meta.json")))
        props = meta.get("properties") or [meta["property"]]
        expect = meta.get("expect", "violation")
        # evidence files describe runs on the unchanged tree: keep them out of mutant runs
        import shutil, tempfile
        ev_backup = tempfile.mkdtemp(prefix="evbak_")
        for f in os.listdir(os.path.join(VERIF, "evidence")):
            shutil.copy(os.path.join(VERIF, "evidence", f), ev_backup)
        r = sh(["git", "-C", REPO, "apply", os.path.join(d, "patch.diff")])
        if r.returncode != 0:
            rows.append((sid, "-", "PATCH DOES NOT APPLY", 0)); shutil.rmtree(ev_backup, ignore_errors=True); continue
        try:
            for p in props:
                t = time.time()
                env = dict(os.environ)
                r = sh([os.path.join(VERIF, "check"), p, "--tier", a.tier], cwd=VERIF, env=env)
                viol = [l for l in r.stdout.splitlines() if l.startswith("VIOLATION")]
                if expect == "quiet":
                    ok = r.returncode == 0 and not viol
                else:
                    ok = r.returncode == 1 and bool(viol)
                rows.append((sid, p, ("caught" if expect != "quiet" else "quiet") if ok else "MISSED rc=%d %s" % (r.returncode, (viol or r.stdout.splitlines()[-1:])[:1]),
                             round(time.time() - t, 1), (viol[0] if viol else "")))
        finally:
            sh(["git", "-C", REPO, "checkout", "--", "."])
            for f in os.listdir(ev_backup):
                shutil.copy(os.path.join(ev_backup, f), os.path.join(VERIF, "evidence", f))
            shutil.rmtree(ev_backup, ignore_errors=True)
    bad = 0
    for row in rows:
        print("%-28s %-4s %-60s %6ss %s" % (row[0], row[1], row[2][:60], row[3], row[4] if len(row) > 4 else ""))
        if "MISSED" in row[2] or "APPLY" in row[2]:
            bad += 1
    print("%d rows, %d missed" % (len(rows), bad))
    return 1 if bad else 0


if __name__ == "__main__":
    sys.exit(main())
