#!/venv/bin/python
"""Run the registered quick (or thorough) checks against the seeded property-breaking changes.

For every /verif/seeded/<id>/ (patch.diff + meta.json): apply the patch to /repo, run the check of
every property listed in meta["properties"] (default: meta["property"]), expect exit 1 with a
VIOLATION line, then undo the patch (git checkout -- .).  Prints a table; never leaves /repo dirty.

usage: tools/seeded_run.py [--tier quick|thorough] [--only <id substring>] [--expect-quiet]
"""
import argparse, json, os, subprocess, sys, time
VERIF = os.path.dirname(os.path.dirname(os.path.abspath(__file__)))
REPO = "/repo"
# mutants are applied to a scratch copy of /repo (FGUTILS_REPO), so that /repo itself stays untouched
# while other work reads it; --in-place applies to /repo itself as the brief describes
SCRATCH = os.environ.get("SEEDED_SCRATCH", "/tmp/seeded_repo_copy")


def sh(cmd, **k):
    return subprocess.run(cmd, stdout=subprocess.PIPE, stderr=subprocess.STDOUT, text=True, **k)


def main():
    ap = argparse.ArgumentParser()
    ap.add_argument("--tier", default="quick")
    ap.add_argument("--only", default=None)
    ap.add_argument("--in-place", action="store_true")
    ap.add_argument("--props", default=None, help="comma-separated: run only these properties of each case")
    a = ap.parse_args()
    global REPO
    if not a.in_place:
        import shutil
        shutil.rmtree(SCRATCH, ignore_errors=True)
        sh(["git", "clone", "-q", "/repo", SCRATCH])
        REPO = SCRATCH
    if sh(["git", "-C", REPO, "status", "--porcelain"]).stdout.strip():
        print("refusing: /repo is dirty"); return 2
    rows = []
    for sid in sorted(os.listdir(os.path.join(VERIF, "seeded"))):
        d = os.path.join(VERIF, "seeded", sid)
        if not os.path.isdir(d) or (a.only and a.only not in sid):
            continue
        meta = json.load(open(os.path.join(d, "meta.json")))
        props = meta.get("properties") or [meta["property"]]
        if a.props:
            props = [p for p in props if p in a.props.split(",")]
            if not props:
                continue
        expect = meta.get("expect", "violation")
        # evidence files describe runs on the unchanged tree: keep them out of mutant runs
        import shutil, tempfile
        ev_backup = tempfile.mkdtemp(prefix="evbak_")
        for f in os.listdir(os.path.join(VERIF, "evidence")):
            shutil.copy(os.path.join(VERIF, "evidence", f), ev_backup)
        if not a.in_place:
            # a fresh clone per mutant: nothing a previous mutant run left behind can interfere
            shutil.rmtree(SCRATCH, ignore_errors=True)
            sh(["git", "clone", "-q", "/repo", SCRATCH])
        r = sh(["git", "-C", REPO, "apply", os.path.join(d, "patch.diff")])
        if r.returncode != 0:
            r = sh(["patch", "-p1", "-F3", "-s", "-i", os.path.join(d, "patch.diff")], cwd=REPO)
        if r.returncode != 0:
            rows.append((sid, "-", "PATCH DOES NOT APPLY", 0)); shutil.rmtree(ev_backup, ignore_errors=True); continue
        try:
            for p in props:
                t = time.time()
                env = dict(os.environ)
                env["FGUTILS_REPO"] = REPO
                r = sh([os.path.join(VERIF, "check"), p, "--tier", a.tier], cwd=VERIF, env=env)
                viol = [l for l in r.stdout.splitlines() if l.startswith("VIOLATION")]
                if expect == "quiet":
                    ok = r.returncode == 0 and not viol
                else:
                    ok = r.returncode == 1 and bool(viol)
                rows.append((sid, p, ("caught" if expect != "quiet" else "quiet") if ok else ("MISSED" if expect != "quiet" else "FALSE-ALARM") + " rc=%d %s" % (r.returncode, (viol or r.stdout.splitlines()[-1:])[:1]),
                             round(time.time() - t, 1), (viol[0] if viol else "")))
        finally:
            sh(["git", "-C", REPO, "checkout", "--", "."])
            for f in os.listdir(ev_backup):
                shutil.copy(os.path.join(ev_backup, f), os.path.join(VERIF, "evidence", f))
            shutil.rmtree(ev_backup, ignore_errors=True)
    bad = 0
    for row in rows:
        print("%-28s %-4s %-60s %6ss %s" % (row[0], row[1], row[2][:60], row[3], row[4] if len(row) > 4 else ""))
        if "MISSED" in row[2] or "APPLY" in row[2] or "FALSE-ALARM" in row[2]:
            bad += 1
    if not a.in_place:
        import shutil
        shutil.rmtree(SCRATCH, ignore_errors=True)
        # the generated tables were last written from the scratch copy: regenerate from /repo
        sh([os.path.join(VERIF, "setup.sh")], cwd=VERIF)
    print("%d rows, %d missed" % (len(rows), bad))
    return 1 if bad else 0


if __name__ == "__main__":
    sys.exit(main())
