#!/venv/bin/python
"""Run every claimed check (quick) with several seeds on the unchanged tree; validate MANIFEST and
evidence files against the schemas (needs python3-vt for jsonschema: invoked as subprocess)."""
import json, os, subprocess, sys, time
VERIF = os.path.dirname(os.path.dirname(os.path.abspath(__file__)))


def main():
    seeds = [int(s) for s in (sys.argv[1:] or ["0", "1", "2"])]
    m = json.load(open(os.path.join(VERIF, "MANIFEST.json")))
    bad = 0
    for c in m["checks"]:
        for s in seeds:
            t = time.time()
            env = dict(os.environ, VERIF_SEED=str(s))
            r = subprocess.run(c["quick_cmd"], shell=True, cwd=VERIF, env=env, stdout=subprocess.PIPE,
                               stderr=subprocess.STDOUT, text=True)
            lines = [l for l in r.stdout.splitlines() if l.startswith(("VIOLATION", "KNOWN-FINDING", "ERROR"))]
            print("%s seed=%d rc=%d %.1fs %s" % (c["property_id"], s, r.returncode, time.time() - t, " | ".join(lines)[:200]))
            if r.returncode != 0:
                bad += 1
                print(r.stdout[-1500:])
        v = subprocess.run(["python3-vt", "-c", "import json,jsonschema,sys; jsonschema.validate(json.load(open(sys.argv[1])), json.load(open('/root/.vp/EVIDENCE.schema.json')))",
                            os.path.join(VERIF, c["evidence_file"])], stdout=subprocess.PIPE, stderr=subprocess.STDOUT, text=True)
        if v.returncode != 0:
            bad += 1
            print("EVIDENCE INVALID", c["property_id"], v.stdout[-500:])
    v = subprocess.run(["python3-vt", "-c", "import json,jsonschema; jsonschema.validate(json.load(open('%s/MANIFEST.json')), json.load(open('/root/.vp/MANIFEST.schema.json')))" % VERIF],
                       stdout=subprocess.PIPE, stderr=subprocess.STDOUT, text=True)
    if v.returncode != 0:
        bad += 1
        print("MANIFEST INVALID", v.stdout[-500:])
    print("selfcheck:", "OK" if not bad else "%d problems" % bad)
    return 1 if bad else 0


if __name__ == "__main__":
    sys.exit(main())
