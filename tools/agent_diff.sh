#!/bin/sh
# usage: tools/agent_diff.sh <agent name>   — list files that differ between /verif and /tmp/w/<name>/verif
diff -rq /verif /tmp/w/$1/verif -x .lake -x out -x evidence -x __pycache__ -x .git -x seeded -x tools -x '*.pyc' 2>/dev/null | sed 's#/tmp/w/'$1'/verif#AGENT#g'
