#!/usr/bin/env python3
"""usage: tools/add_imports.py <module> ... — add `import FGVerif.<module>` lines to lean/FGVerif.lean
(Generated.* after Generated.Tables, Model.* after the last Model import, Proofs.* at the end)."""
import sys, re
p = '/verif/lean/FGVerif.lean'
lines = open(p).read().rstrip('\n').split('\n')
for m in sys.argv[1:]:
    imp = 'import FGVerif.' + m
    if imp in lines:
        continue
    kind = m.split('.')[0]
    idx = [i for i, l in enumerate(lines) if l.startswith('import FGVerif.' + kind + '.')]
    if kind == 'Proofs' or not idx:
        lines.append(imp)
    else:
        lines.insert(idx[-1] + 1, imp)
open(p, 'w').write('\n'.join(lines) + '\n')
